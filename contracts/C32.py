"""C32 - the plan simulator replays plans faithfully.

Carriers: bluesky/simulators.py: RunEngineSimulator.simulate_plan, add_handler (+ its predicate lambda),
_MessageHandler.__init__, check_limits_async.
simulate_plan / check_limits_async are *drivers* of an arbitrary plan: the plan is an abstract generator (the
environment), every interaction with it is a cut point, and the driver loop is closed co-inductively when the driver's
frame (minus the append-only `messages` list, whose content is checked at every cut) repeats.  Obligations at each
interaction, from the statement:
  simulate_plan: the value sent into the plan is the result of the first (= newest) handler whose predicate accepts
      the message just yielded, else None; `messages` equals the messages yielded so far, in order; at the end
      `return_value` is the plan's return value and the returned list is `messages`
  add_handler: default index puts the new handler first (newest wins), END appends; the predicate accepts exactly the
      messages with a listed command that pass the filter (none / callable / object name)
  check_limits_async: check_value(target) is awaited for exactly the 'set' messages on Checkable objects, each
      non-checkable object is warned about once and then ignored, and the call raises iff a check_value raises
"""
import ast

from .lib import *
from pyvc.bisim import Canon

PROP = "C32"
MS = "bluesky.simulators"
Q = f"{MS}:RunEngineSimulator"
TRUSTED = ["A-LOG: LOGGER.debug / warn are effect-free", "the plan is an arbitrary generator obeying the generator protocol; messages are Msg tuples (truthy)",
           "handler predicates / runnables are arbitrary functions of the message (abstract); they do not raise",
           "maybe_await(x) awaits x when it is awaitable and returns it otherwise (bluesky.utils.maybe_await is executed)"]
NOT_DECIDED = ("the convenience add_*_handler methods built on add_handler; fire_callback bookkeeping; handlers that raise - observation (outside the "
               "statement, which speaks of handlers' results): a StopIteration escaping a handler, e.g. the one add_callback_handler_for_multiple builds once "
               "its documents are used up, is taken by simulate_plan for the end of the plan (messages truncated, return_value None)")
_SEEN = {}


class EnvPlan:
    """the plan as environment of a driver loop: records what it is sent, decides what it yields"""

    def __init__(self, I, name, on_send, msg_factory, frame_of, exclude=()):
        self.I, self.w, self.name = I, I.w, name
        self.on_send, self.msg_factory = on_send, msg_factory
        self.frame_of, self.exclude = frame_of, exclude
        self.k = 0
        self.done = False
        self.yielded = []
        self.returned = None
        self.frame = None
        self.started = False

    def resume(self, tok):
        I, w = self.I, self.w
        if tok[0] != "send":
            raise EngineError(f"driver used {tok[0]} on the plan")
        if self.done:
            raise PyRaise(I.mkexc("StopIteration"))
        self.on_send(self, tok[1])
        # cut point: close when the driver's state repeats (beyond the replayed prefix)
        fr = self.frame_of()
        if fr is not None and self.started:
            cn = Canon(w)
            cn.exclude = {(fr.closure.qualname, v) for v in self.exclude}
            key = (self.name, cn.frame(fr))
            seen = _SEEN.setdefault((w.task_name, self.name), set())
            if not w.ch.replaying:
                if key in seen:
                    w.cover(f"{self.name}: closed at an established cut point")
                    raise PathEnd("closed")
                seen.add(key)
        self.started = True
        kind = w.choose(["yield", "return", "return-none", "raise"], f"{self.name}#{self.k}")
        self.k += 1
        if kind == "yield":
            m = self.msg_factory(w, self.k)
            self.yielded.append(m)
            return ("yield", m)
        self.done = True
        if kind == "return":
            self.returned = Opaque(w.fresh("ret"), {"token": "ret"})
            return ("return", self.returned)
        if kind == "return-none":           # a plan that falls off its end
            self.returned = None
            return ("return", None)
        self.raised = Obj(BUILTIN_CLASSES["RuntimeError"], {"args": (), "__cause__": None}, label=w.fresh("plan_error"))
        raise PyRaise(self.raised)


def frame_named(I, suffix):
    def f():
        for fr in reversed(I.frame_stack):
            if fr.closure is not None and fr.closure.qualname.endswith(suffix):
                return fr
        return None
    return f


def scan_only_append(I, qual, var):
    m, chain, node = I.P.find_function(qual)
    ok = True
    for n in ast.walk(node):
        if isinstance(n, ast.Name) and n.id == var:
            fine = False
            for p in ast.walk(node):
                if isinstance(p, ast.Attribute) and p.value is n and p.attr == "append":
                    fine = True
                if isinstance(p, ast.Assign) and n in p.targets:
                    fine = True
                if isinstance(p, ast.Return) and p.value is n:
                    fine = True
            ok = ok and fine
    return ok


# ------------------------------------------------------------------------------------------------ simulate_plan
@task("simulate_plan", PROP, functions=[f"{Q}.simulate_plan", f"{MS}:_MessageHandler.__init__"],
      expect=[f"{Q}.simulate_plan#ensures[each yield receives the newest matching handler's result, else None]",
              f"{Q}.simulate_plan#ensures[messages == everything the plan yielded, in order]",
              f"{Q}.simulate_plan#ensures[return_value == the plan's return value]",
              f"{Q}.simulate_plan#frame[messages is append-only]"],
      covers=["plan: closed at an established cut point", "plan returned"])
def simulate_plan(I):
    w = I.w
    nh = w.choose([0, 1, 2], "number of handlers")
    decisions = {}     # (handler index, message id) -> bool
    pred_calls = []

    def mk_handler(i):
        def pred(I_, a, k):
            key = (i, id(a[0]))
            if key not in decisions:
                decisions[key] = w.choose([True, False], f"handler{i} accepts")
            pred_calls.append(i)
            return decisions[key]

        def run(I_, a, k):
            kind = w.choose(["value", "None"], f"handler{i} result")
            return Opaque(w.fresh(f"h{i}_result"), {"token": f"h{i}res", "truth": True}) if kind == "value" else None
        pred._canon_label = f"pred{i}"
        run._canon_label = f"run{i}"
        ci = I.P.class_info(MS, "_MessageHandler")
        return I.call_value(ci, native(pred), native(run))
    handlers = [mk_handler(i) for i in range(nh)]
    # (the simulator may have been used before: it still holds the return value of the plan simulated earlier)
    earlier = w.choose(["fresh", "used"], "simulator")
    sim = bare(I, Q, message_handlers=list(handlers), return_value=None if earlier == "fresh" else Opaque("earlier_return", {"token": "ret0"}),
               callbacks={}, next_callback_token=0)
    results = {}       # message id -> value the spec expects to be sent next

    def expected_for(msg):
        for i in range(nh):
            if decisions.get((i, id(msg))) is True:
                return i
            if (i, id(msg)) not in decisions:
                return "not-asked"
        return None
    sent_log = []
    state = {"last": None}

    def on_send(env, value):
        sent_log.append(value)
        if not env.started:
            w.check(f"{Q}.simulate_plan#ensures[first send primes the plan with None]", value is None)
            return
        last = env.yielded[-1]
        who = expected_for(last)
        if who is None:
            ok = value is None
        elif who == "not-asked":
            ok = False
        else:
            # the value must be what handler `who` returned for this message
            ok = state["last_results"].get(who, "missing") is value
        w.check(f"{Q}.simulate_plan#ensures[each yield receives the newest matching handler's result, else None]", ok,
                {"replay": "simulators.simulate_plan"})
        fr = frame_named(I, "simulate_plan")()
        w.check(f"{Q}.simulate_plan#ensures[messages == everything the plan yielded, in order]",
                fr is not None and len(fr.vars.get("messages", ())) == len(env.yielded)
                and all(a is b for a, b in zip(fr.vars["messages"], env.yielded)), {"replay": "simulators.simulate_plan"})
    # record handler results per message: wrap runnables
    state["last_results"] = {}
    for i, h in enumerate(handlers):
        orig = h.attrs["runnable"]

        def wrapped(I_, a, k, _i=i, _orig=orig):
            v = I_.call_value(_orig, *a)
            state["last_results"] = {_i: v}
            return v
        wrapped._canon_label = f"run{i}"
        h.attrs["runnable"] = native(wrapped)

    def msgs(w_, k):
        return Opaque(w_.fresh("msg"), {"token": "msg", "truth": True})
    env = EnvPlan(I, "plan", on_send, msgs, frame_named(I, "simulate_plan"), exclude=("messages", "msg", "handler"))
    w.check(f"{Q}.simulate_plan#frame[messages is append-only]", scan_only_append(I, f"{Q}.simulate_plan", "messages"))
    orig_resume = env.resume

    def resume(tok):
        state["last_results"] = state.get("last_results", {}) if env.started else {}
        return orig_resume(tok)
    from pyvc.interp import AbsGen

    class EnvGen(AbsGen):
        def __init__(self):
            self.name = "plan"
            self.frame = None
            self.started = False
            self.done = False
            self.last_msg = None

        def resume(self, tok):
            r = env.resume(tok)
            state["last_results"] = {}
            return r
    res = catch(I, I.getattr(sim, "simulate_plan"), EnvGen())
    if res[0] == "raise":
        w.check(f"{Q}.simulate_plan#raises[only an exception the plan itself raised]", res[1] is getattr(env, "raised", None))
        return
    w.cover("plan returned")
    out = res[1]
    w.check(f"{Q}.simulate_plan#ensures[return_value == the plan's return value]", sim.return_value is env.returned,
            {"replay": "simulators.simulate_plan"})
    w.check(f"{Q}.simulate_plan#ensures[messages == everything the plan yielded, in order]",
            isinstance(out, list) and len(out) == len(env.yielded) and all(a is b for a, b in zip(out, env.yielded)),
            {"replay": "simulators.simulate_plan"})


# ------------------------------------------------------------------------------------------------ add_handler
@task("add_handler", PROP, functions=[f"{Q}.add_handler"],
      expect=[f"{Q}.add_handler#ensures[default index prepends (newest first), END appends]",
              f"{Q}.add_handler#ensures[predicate: listed command and filter (none / callable / object name)]"])
def add_handler(I):
    w = I.w
    sim = bare(I, Q, message_handlers=[], return_value=None, callbacks={}, next_callback_token=0)
    h1, h2, h3 = (native(lambda I_, a, k: None) for _ in range(3))
    END = I.global_lookup(I.P.module(MS), "END")
    call_method(I, sim, "add_handler", "read", h1)
    call_method(I, sim, "add_handler", ["set", "trigger"], h2)
    call_method(I, sim, "add_handler", "wait", h3, None, END)
    hs = sim.message_handlers
    w.check(f"{Q}.add_handler#ensures[default index prepends (newest first), END appends]",
            len(hs) == 3 and hs[0].runnable is h2 and hs[1].runnable is h1 and hs[2].runnable is h3)
    # predicate semantics on a symbolic message
    cmd = w.choose(["read", "set", "other"], "message command")
    has_obj = w.choose([True, False], "message has an object")
    oname = w.choose(["motor", "det"], "object name") if has_obj else None
    obj = Opaque("obj", {"token": "dev", "attrs": {"name": oname}, "truth": True}) if has_obj else None
    msg = MsgVal(cmd, obj, (), {}, None)
    fkind = w.choose(["none", "callable", "name", "single command name"], "msg_filter kind")
    if fkind == "single command name":
        # a handler registered for ONE command given as a string handles exactly that command - not the commands whose name is a part of it
        # ('wait_for' / 'wait', 'unstage' / 'stage', 'unmonitor' / 'monitor', 'unsubscribe' / 'subscribe') nor those it is a part of
        reg, other = w.choose([("wait_for", "wait"), ("unstage", "stage"), ("unmonitor", "monitor"), ("wait", "wait_for"), ("set", "settle")], "names")
        cmd2 = w.choose([reg, other], "message command (registered / look-alike)")
        sim3 = bare(I, Q, message_handlers=[], return_value=None, callbacks={}, next_callback_token=0)
        call_method(I, sim3, "add_handler", reg, h1)
        got = I.call_value(sim3.message_handlers[0].predicate, MsgVal(cmd2, obj, (), {}, None))
        w.check(f"{Q}.add_handler#ensures[predicate: listed command and filter (none / callable / object name)]", I.truth(got) == (cmd2 == reg),
                {"replay": "simulators.add_handler_names", "registered": reg, "message": cmd2})
        return
    sim2 = bare(I, Q, message_handlers=[], return_value=None, callbacks={}, next_callback_token=0)
    if fkind == "none":
        call_method(I, sim2, "add_handler", ["read", "set"], h1)
        want = cmd in ("read", "set")
    elif fkind == "callable":
        accept = w.choose([True, False], "filter accepts")
        call_method(I, sim2, "add_handler", ["read", "set"], h1, native(lambda I_, a, k: accept))
        want = cmd in ("read", "set") and accept
    else:
        call_method(I, sim2, "add_handler", ["read", "set"], h1, "motor")
        want = cmd in ("read", "set") and has_obj and oname == "motor"
    got = I.call_value(sim2.message_handlers[0].predicate, msg)
    w.check(f"{Q}.add_handler#ensures[predicate: listed command and filter (none / callable / object name)]",
            I.truth(got) == bool(want))


# ------------------------------------------------------------------------------------------------ check_limits_async
CL = f"{MS}:check_limits_async"


@task("check_limits_async", PROP, functions=[CL],
      expect=[f"{CL}#ensures[check_value awaited exactly for 'set' on Checkable objects with the target]",
              f"{CL}#raises[iff some check_value raises]"],
      covers=["limits: closed at an established cut point", "limits: finished"])
def check_limits(I):
    w = I.w
    checks = []        # (device, value) calls of check_value
    warned = []
    devs = {}

    def mkdev(name, checkable, is_async):
        def body(o, value):
            # the limit check itself: for an `async def check_value` it runs when the coroutine is awaited, not when it is created
            checks.append((o, value))
            bad = w.choose([False, True], f"{name}.check_value raises")
            if bad:
                o.attrs["$raised"] = Obj(BUILTIN_CLASSES["ValueError"], {"args": (), "__cause__": None}, label=w.fresh("limit_error"))
                raise PyRaise(o.attrs["$raised"])
            return None

        def check_value(I_, o, a, k):
            if is_async:
                c = Opaque(w.fresh("check_value_coro"), {"token": "coro", "awaitable": True, "truth": True, "isinstance_default": False})
                c.attrs["$run"] = lambda: body(o, a[0])
                return c
            return body(o, a[0])
        return Opaque(name, {"token": "dev", "attrs": {"name": name}, "isinstance": {"Checkable": checkable}, "isinstance_default": False,
                             "methods": {"check_value": check_value} if checkable else {}, "truth": True})
    # Checkable.check_value "can be a standard function or an async function" (bluesky.protocols)
    flavour = w.choose(["sync", "async"], "check_value flavour")
    devs = {"m1": mkdev("m1", True, flavour == "async"), "m2": mkdev("m2", True, False), "x": mkdev("x", False, False)}
    w.stubs[(MS, "warn")] = native(lambda I_, a, k: warned.append(a[0]))
    expected = []      # spec: list of (dev, value) for set on checkable objects
    failing = {"exc": None}

    def msgs(w_, k):
        cmd = w_.choose(["set", "read"], f"msg{k} command")
        d = devs[w_.choose(["m1", "x"], f"msg{k} object")]
        val = Opaque(w_.fresh("target"), {"token": "target"})
        return MsgVal(cmd, d, (val,), {}, None)

    def on_send(env, value):
        # the driver asks for the next message: everything demanded by the messages so far must have happened
        exp = [(m.obj, m.args[0]) for m in env.yielded if m.command == "set" and m.obj is not devs["x"]]
        w.check(f"{CL}#ensures[check_value awaited exactly for 'set' on Checkable objects with the target]",
                len(exp) == len(checks) and all(a[0] is b[0] and a[1] is b[1] for a, b in zip(exp, checks)), {"replay": "simulators.check_limits"})
    holder = {}
    env = EnvPlan(I, "limits", on_send, msgs, lambda: holder["coro"].frame, exclude=("msg", "obj", "plan"))
    from pyvc.interp import AbsGen

    class EnvGen(AbsGen):
        def __init__(self):
            self.name = "limits"
            self.frame = None
            self.started = False
            self.done = False
            self.last_msg = None

        def resume(self, tok):
            return env.resume(tok)
    coro = I.call_value(I.get_function(CL), EnvGen())
    holder["coro"] = coro
    tok = ("send", None)
    while True:
        try:
            out = coro.resume(tok)
        except PyRaise as pr:
            res = ("raise", pr.exc)
            break
        if out[0] == "await" and isinstance(out[1][0], Opaque) and "$run" in out[1][0].attrs:
            # the driver awaits the coroutine an async check_value returned: its body runs now
            try:
                out[1][0].attrs["$run"]()
                tok = ("send", None)
            except PyRaise as pr:
                tok = ("throw", pr.exc)
            continue
        res = ("ok", out)
        break
    raised = [d.attrs.get("$raised") for d in devs.values() if d.attrs.get("$raised") is not None]
    if res[0] == "raise":
        ok = (raised and res[1] is raised[0]) or res[1] is getattr(env, "raised", None)
        w.check(f"{CL}#raises[iff some check_value raises]", bool(ok), {"replay": "simulators.check_limits"})
        return
    w.cover("limits: finished")
    w.check(f"{CL}#raises[iff some check_value raises]", not raised and res[1][0] == "return", {"replay": "simulators.check_limits"})
    exp = [(m.obj, m.args[0]) for m in env.yielded if m.command == "set" and m.obj is not devs["x"]]
    w.check(f"{CL}#ensures[check_value awaited exactly for 'set' on Checkable objects with the target]",
            len(exp) == len(checks) and all(a[0] is b[0] and a[1] is b[1] for a, b in zip(exp, checks)), {"replay": "simulators.check_limits"})
    n_x_sets = sum(1 for m in env.yielded if m.command == "set" and m.obj is devs["x"])
    w.check(f"{CL}#ensures[a non-checkable object is warned about once, then ignored]", len(warned) == (1 if n_x_sets else 0))
