"""C26 - snaked grids are a continuous back-and-forth ordering of the full grid.

Carriers: bluesky/utils/__init__.py: snake_cyclers; bluesky/plan_patterns.py: outer_list_product, outer_product (callers).

Reading of the statement (fixed here).  Axes 0..n-1, slowest first, axis i has L_i >= 1 values v_i[0..L_i-1] (per key of
its cycler) and a flag snake_i.  N = L_0*...*L_{n-1}; R_i = L_{i+1}*...*L_{n-1} is the number of steps for which axis i holds a
value ("the faster axes run through"); for a step 0 <= t < N

    d_i(t) = (t div R_i) mod L_i          the digit of axis i in plain product ("odometer") order
    s_i(t) = t div (L_i*R_i)              how many times a slower axis has advanced before step t
    pos_i(t) = d_i(t)                     if not snake_i, or s_i(t) is even        (forth)
             = L_i - 1 - d_i(t)           if snake_i and s_i(t) is odd             (back)

"unsnaked axes follow plain product order" is pos_i = d_i; "every snaked axis reverses direction each time any slower axis
advances" is the parity of s_i.  The contract of snake_cyclers (F1) is: the result has N steps, the keys of all axes, and at
step t the value of every key k of axis i is v_{i,k}[pos_i(t)].  The two remaining clauses of the statement are arithmetic
consequences of F1 and are proved about the formula (not about the code):

    F2 permutation of the full product: t -> (pos_0(t), .., pos_{n-1}(t)) is injective on [0, N), every pos_i(t) is in
       [0, L_i), and every grid point (p_0, .., p_{n-1}) is pos(t) of some t < N;
    F3 continuity: between t and t+1 (< N) exactly one axis k moves, by exactly one index (forward if it is running forth,
       backward if it is running back); slower axes (< k) and *snaked* faster axes (> k) keep their position; an unsnaked
       faster axis returns from L-1 to 0.  With all inner axes snaked, consecutive points differ in one axis by one index.

How F1 is proved: the real body of snake_cyclers is executed symbolically for every rank n <= 4 with symbolic lengths, flags,
values and step t; numpy / cycler calls are replaced by pointwise assumed contracts over symbolic sequences (TRUSTED); the
div/mod identities that connect the index computed by tile(repeat(concatenate(v, v[::-1]), R), T)[:N] with pos_i(t) are
Lean-checked lemmas (contracts/c26_lemmas.py) instantiated at the step t - the SMT solver does linear reasoning only.
F2/F3 are proved the same way for n <= 4 from per-axis Lean lemmas (carry chain of the mixed-radix counter, uniqueness of
quotient and remainder).  The callers are verified against the callee's contract: they pass one cycler(motor_i, positions_i)
per axis, in order, with the documented flags (the flag of the slowest axis is irrelevant by F1).

Tasks that are *not* counted as proof (labelled bounded): `snake_cyclers.instances[..]` - the same contract on concrete
lengths 1..3, where the arithmetic is linear (they exist to produce small counter-models for a wrong body, on which the
non-linear queries of the symbolic tasks may end `unknown`); `native.sweep` - the real function with the real numpy / cycler
against F1 and against the statement's clauses on every small grid.
"""
import hashlib
import itertools
import json
import os
import subprocess
import tempfile

import z3

from .lib import *
from . import c26_lemmas as LEM

PROP = "C26"
MU = "bluesky.utils"
MP = "bluesky.plan_patterns"
F = f"{MU}:snake_cyclers"
MAX_RANK = 4
TRUSTED = [
    "rank is enumerated: F1 is proved for n = 1..4 axes (1 or 2 keys per axis for n <= 3) and F2/F3 for n = 1..4; for each rank "
    "the lengths L_i >= 1, the flags, the position values and the step t are symbolic (all values); ranks > 4 are not covered; "
    "the callers outer_list_product / outer_product are verified for n = 1..3 axes (lengths, positions, flags symbolic)",
    "chunk_outer_product_args / classify_outer_product_args_pattern are executed (real bodies) with motors that satisfy "
    "isinstance(m, Movable) and isinstance(m, Readable); toolz/cytools partition(n, seq) = consecutive n-tuples; "
    "numpy.linspace(start, stop, num=num, endpoint=True) = some sequence of num values",
    "assumed contract numpy.array(list of scalars) = 1-D array with the same elements; position values are opaque *scalars* "
    "(a position that is itself a sequence would become a 2-D array; see NOT_DECIDED)",
    "assumed contract numpy.concatenate([a, b])[j] = a[j] for j < len a, b[j - len a] otherwise; length len a + len b",
    "assumed contract a[::-1][j] = a[len a - 1 - j]; a[:m] keeps the first min(m, len a) elements (m >= 0)",
    "assumed contract numpy.repeat(a, r)[j] = a[j div r], length r * len a, for an integer (or integral float) r >= 0",
    "assumed contract numpy.tile(a, m)[j] = a[j mod len a], length m * len a, for an integer m >= 0",
    "assumed contract numpy.prod(list of ints) = their product (no int64 overflow), numpy.prod([]) = 1.0",
    "assumed contract cycler(k, seq): one key k, len(seq) steps, value seq[t] at step t; Cycler._transpose() = {key: list of its values}; "
    "len(c) = number of steps",
    "assumed contract Cycler.__add__: ValueError unless equal lengths and disjoint keys; then the union of the columns",
    "assumed contract Cycler.__mul__ (outer product, right factor fastest): ValueError on overlapping keys; length len a * len b; "
    "at step t the left columns are at t div len b and the right columns at t mod len b",
    "functools.reduce(f, [x0, x1, ..]) = f(..f(f(x0, x1), x2)..); TypeError on an empty list; operator.add / operator.mul are + and *",
    "Lean 4 (core library, kernel-checked on every run) proves the div/mod lemmas over Nat; they are used at Int terms built with "
    "+ * div mod from atoms that are >= 0 (>= 1 below a divisor), where SMT-LIB div/mod and Nat / and % agree; the printer "
    "z3 term -> Lean statement (c26_lemmas.lean_of) is trusted (each z3 statement is also evaluated exhaustively on 0..5)",
    "the keys of different axes are pairwise distinct hashable objects (otherwise cycler raises ValueError: overlapping cycles)",
]
NOT_DECIDED = ("numpy / cycler internals (only their pointwise contracts are used; the bounded native sweep compares the real libraries "
               "with formula F1 on small grids); ranks above 4; empty axes (L_i = 0: cycler itself cannot iterate an empty cycle); "
               "the numeric values produced by numpy.linspace in outer_product; positions that are themselves sequences "
               "(numpy.array makes them a 2-D array and numpy.repeat flattens it - outside the scalar-position reading)")

VAL = z3.DeclareSort("Val")          # opaque position values


# ================================================================================================ symbolic sequences
class Seq:
    """a finite sequence with symbolic length `n` (z3 Int) and element function `f` (z3 Int term -> z3 Val term)"""

    def __init__(self, n, f):
        self.n, self.f = n, f


def zt(v):
    """z3 Int term of an object-language integer"""
    if isinstance(v, Sym):
        if v.kind != "int":
            raise EngineError(f"integer expected, got {v!r}")
        return v.t
    if isinstance(v, bool) or not isinstance(v, int):
        raise EngineError(f"integer expected, got {v!r}")
    return z3.IntVal(v)


def count_of(I, v, what):
    """numpy accepts an integral float where a count is expected (numpy.prod([]) is 1.0)"""
    if isinstance(v, float):
        if v != int(v):
            raise EngineError(f"{what}: non-integral float count {v!r} (not modelled)")
        return int(v)
    if isinstance(v, Sym) and v.kind == "int" or isinstance(v, int) and not isinstance(v, bool):
        return v
    raise EngineError(f"{what}: count {v!r} not modelled")


def mk_seq(I, seq, kind):
    def getitem(I_, o, k):
        s = o.seq
        if isinstance(k, slice):
            if k.start is None and k.stop is None and k.step == -1:
                n, f = s.n, s.f
                return mk_seq(I_, Seq(n, lambda j: f(n - 1 - j)), kind)
            if k.start is None and k.step is None and k.stop is not None:
                m = zt(count_of(I_, k.stop, "slice stop"))
                n = s.n
                hi = z3.If(m < 0, z3.If(m + n < 0, 0, m + n), z3.If(m > n, n, m))
                return mk_seq(I_, Seq(hi, s.f), kind)
        raise EngineError(f"subscript {k!r} of a symbolic {kind} is not modelled")
    o = Opaque(I.w.fresh(kind), {"len": lambda I_, o_: Sym(o_.seq.n), "getitem": getitem, "isinstance_default": False,
                                 "type": kind})
    o.seq = seq
    o.kind = kind
    return o


def is_seq(v, kind=None):
    return isinstance(v, Opaque) and hasattr(v, "seq") and (kind is None or v.kind == kind)


# ================================================================================================ cycler model
def mk_cycler(I, keys, n, cols):
    """keys: host list of hashable keys (in order); n: z3 Int (number of steps); cols: key -> element function"""
    def transpose(I_, o, a, k):
        return {key: mk_seq(I_, Seq(o.n, o.cols[key]), "list") for key in o.keys}

    def binop(I_, op, a, b):
        if not (is_cycler(a) and is_cycler(b)) or op not in ("+", "*"):
            raise EngineError(f"cycler {op} {a!r} {b!r} not modelled")
        if set(a.keys) & set(b.keys):
            I_.raise_("ValueError", "Can not compose overlapping cycles")
        if op == "+":
            if I_.truth(ops.mk(a.n != b.n), "cycler.__add__: lengths differ"):
                I_.raise_("ValueError", "Can only add equal length cycles")
            cols_ = dict(a.cols)
            cols_.update(b.cols)
            return mk_cycler(I_, a.keys + b.keys, a.n, cols_)
        bn = b.n
        cols_ = {key: (lambda j, f=f: f(j / bn)) for key, f in a.cols.items()}
        cols_.update({key: (lambda j, f=f: f(j % bn)) for key, f in b.cols.items()})
        return mk_cycler(I_, a.keys + b.keys, a.n * b.n, cols_)
    o = Opaque(I.w.fresh("cycler"), {"len": lambda I_, o_: Sym(o_.n), "methods": {"_transpose": transpose}, "binop": binop,
                                     "isinstance_default": False, "truth": True})
    o.keys, o.n, o.cols = list(keys), n, dict(cols)
    return o


def is_cycler(v):
    return isinstance(v, Opaque) and hasattr(v, "cols")


def install_stubs(I):
    w = I.w

    def np_array(I_, a, k):
        if not is_seq(a[0]) or k:
            raise EngineError(f"numpy.array({a!r}, {k!r}) not modelled")
        return mk_seq(I_, a[0].seq, "ndarray")

    def np_concatenate(I_, a, k):
        parts = a[0]
        if k or len(a) != 1 or not isinstance(parts, (list, tuple)) or not parts or not all(is_seq(p, "ndarray") for p in parts):
            raise EngineError(f"numpy.concatenate({a!r}) not modelled")
        w.ghost.setdefault("c26", []).append("concatenate")
        cur = parts[0].seq
        for p in parts[1:]:
            (na, fa), (nb, fb) = (cur.n, cur.f), (p.seq.n, p.seq.f)
            cur = Seq(na + nb, lambda j, na=na, fa=fa, fb=fb: z3.If(j < na, fa(j), fb(j - na)))
        return mk_seq(I_, cur, "ndarray")

    def nonneg(I_, c, msg):
        if isinstance(c, int):
            if c < 0:
                I_.raise_("ValueError", msg)
        elif I_.truth(ops.mk(c.t < 0), msg):
            I_.raise_("ValueError", msg)

    def np_repeat(I_, a, k):
        if k or len(a) != 2 or not is_seq(a[0], "ndarray"):
            raise EngineError(f"numpy.repeat({a!r}, {k!r}) not modelled")
        c = count_of(I_, a[1], "numpy.repeat")
        nonneg(I_, c, "repeats may not contain negative values.")
        s = a[0].seq
        if isinstance(c, int) and c == 1:
            return mk_seq(I_, Seq(s.n, s.f), "ndarray")
        ct = zt(c)
        return mk_seq(I_, Seq(s.n * ct, lambda j: s.f(j / ct)), "ndarray")

    def np_tile(I_, a, k):
        if k or len(a) != 2 or not is_seq(a[0], "ndarray"):
            raise EngineError(f"numpy.tile({a!r}, {k!r}) not modelled")
        c = a[1]
        if isinstance(c, float) or isinstance(c, bool) or not (isinstance(c, int) or isinstance(c, Sym) and c.kind == "int"):
            raise EngineError(f"numpy.tile: reps {c!r} not modelled")
        nonneg(I_, c, "negative dimensions are not allowed")
        s = a[0].seq
        if isinstance(c, int) and c == 1:
            return mk_seq(I_, Seq(s.n, s.f), "ndarray")
        return mk_seq(I_, Seq(s.n * zt(c), lambda j: s.f(j % s.n)), "ndarray")

    def np_prod(I_, a, k):
        if k or len(a) != 1 or not isinstance(a[0], list):
            raise EngineError(f"numpy.prod({a!r}) not modelled")
        if not a[0]:
            return 1.0
        cur = a[0][0]
        for x in a[0][1:]:
            cur = Sym(zt(cur) * zt(x))
        zt(cur)
        return cur

    def cycler_(I_, a, k):
        if k or len(a) != 2 or not is_seq(a[1]):
            raise EngineError(f"cycler({a!r}, {k!r}) not modelled")
        return mk_cycler(I_, [a[0]], a[1].seq.n, {a[0]: a[1].seq.f})

    def reduce_(I_, a, k):
        items = list(I_.run(I_.iterate(a[1])))
        w.ghost.setdefault("c26", []).append(getattr(a[0], "dotted", repr(a[0])))
        if len(a) > 2:
            items.insert(0, a[2])
        if not items:
            I_.raise_("TypeError", "reduce() of empty iterable with no initial value")
        cur = items[0]
        for x in items[1:]:
            cur = I_.call_value(a[0], cur, x)
        return cur

    w.stubs["numpy.array"] = np_array
    w.stubs["numpy.concatenate"] = np_concatenate
    w.stubs["numpy.repeat"] = np_repeat
    w.stubs["numpy.tile"] = np_tile
    w.stubs["numpy.prod"] = np_prod
    w.stubs["cycler.cycler"] = cycler_
    w.stubs["functools.reduce"] = reduce_
    w.stubs["operator.add"] = lambda I_, a, k: I_.run(I_.binop("+", a[0], a[1]))
    w.stubs["operator.mul"] = lambda I_, a, k: I_.run(I_.binop("*", a[0], a[1]))


# ================================================================================================ the formula (from the statement)
def prod_right(Ls):
    """R for the axes faster than the first of `Ls`... product L_a * (L_{a+1} * (...)), None for the empty product"""
    cur = None
    for L in reversed(Ls):
        cur = L if cur is None else L * cur
    return cur


def prod_left(Ls):
    cur = None
    for L in Ls:
        cur = L if cur is None else cur * L
    return cur


def digit(t, L, R):
    return (t if R is None else t / R) % L


def slower(t, L, R):
    return t / (L if R is None else L * R)


def pos(t, L, R, sn):
    """index along an axis of length L at step t; R = number of steps the axis holds a value (None = 1)"""
    d = digit(t, L, R)
    return z3.If(z3.And(sn, slower(t, L, R) % 2 == 1), L - 1 - d, d)


def _dedupe(terms):
    out = []
    for x in terms:
        if x is not None and not any(z3.eq(x, y) for y in out):
            out.append(x)
    return out


def facts(Ls, t):
    """Lean-checked lemma instances (valid facts) that connect the index arithmetic of the code with the formula, at step t.
    They only mention t and the lengths, so they are added to the path condition before the body is executed."""
    n = len(Ls)
    out = []
    for k in range(2, n + 1):                      # N and the tile counts numpy.prod(lengths[:i]) are positive
        out.append(LEM.inst("mulpos", prod_left(Ls[:k - 1]), Ls[k - 1]))
    for i in range(n):
        L = Ls[i]
        rest = Ls[i + 1:]
        for k in range(2, len(rest) + 1):          # the repeat counts, as the code forms them and as the formula forms them
            out.append(LEM.inst("mulpos", prod_left(rest[:k - 1]), rest[k - 1]))
            out.append(LEM.inst("mulpos", rest[-k], prod_right(rest[len(rest) - k + 1:])))
        Rs = _dedupe([prod_right(rest), prod_left(rest)])
        for R in Rs:
            out += [LEM.inst("mulpos", L, R), LEM.inst("mulpos", L + L, R), LEM.inst("plain", t, R, L), LEM.inst("snake", t, R, L)]
            # (the same two facts for a body that repeats after tiling: tile(w, T)[t div R] = w[(t div R) mod len w])
            out += [LEM.inst("mod2L", t / R, L), LEM.inst("divdiv", t, L, R)]
        if len(Rs) == 2:
            if len(rest) != 3:
                raise EngineError("re-association of the repeat count is only set up for three faster axes (rank 4)")
            out.append(LEM.inst("assoc", *rest))             # (a*b)*c = a*(b*c): numpy.prod's order vs the formula's R_i
        if not Rs:
            out.append(LEM.inst("mod2L", t, L))
        elif i > 0:
            out.append(LEM.inst("divdiv", t, L, Rs[0]))          # (t div R_i) div L_i = t div (L_i * R_i) = t div R_{i-1}
    R0 = prod_right(Ls[1:])
    if R0 is None:
        out.append(LEM.inst("small", t, Ls[0]))
    else:
        out += [LEM.inst("div_lt", t, Ls[0], R0), LEM.inst("small", t / R0, Ls[0]), LEM.inst("small", t, Ls[0] * R0)]
    return out


# ================================================================================================ F1 on the real body
def setup(I, n, nkeys):
    w = I.w
    Ls = [w.int(f"L{i}") for i in range(n)]
    for L in Ls:
        w.add(L >= 1)
    sn = [w.bool(f"snake{i}") for i in range(n)]
    vals = [[z3.Function(f"v{i}_{j}", z3.IntSort(), VAL) for j in range(nkeys[i])] for i in range(n)]
    keys = [[f"m{i}_{j}" for j in range(nkeys[i])] for i in range(n)]
    cyclers = [mk_cycler(I, keys[i], Ls[i].t, {keys[i][j]: vals[i][j] for j in range(nkeys[i])}) for i in range(n)]
    t = w.int("t")
    Lt = [L.t for L in Ls]
    N = prod_left(Lt)
    w.add(And(t >= 0, Sym(t.t < N)))
    for fact in facts(Lt, t.t):
        w.add(Sym(fact))
    install_stubs(I)
    return Ls, Lt, sn, vals, keys, cyclers, t, N


E_N = f"{F}#ensures[the result has N = L_0*...*L_(n-1) steps]"
E_KEYS = f"{F}#ensures[the result has exactly the keys of all axes]"
E_POS = f"{F}#ensures[at step t every key of axis i has the value v_i[pos_i(t)]]"
E_EXC = f"{F}#no-unlicensed-exception"


def cover_at(w, name, *witness):
    """vacuity guard: the path condition is satisfiable - decided at a concrete grid (lengths fixed by `witness`), where
    the arithmetic is linear, so that the guard does not depend on the solver finding a non-linear model"""
    cov = getattr(w, "covered", None)
    if cov is None or name in cov:
        return
    if w._check(z3.And(*witness)) == z3.sat:
        cov.add(name)


_SPENT = {}      # task name -> [refuted obligations, undecided queries] so far (the paths of a task run in one process)


def stop_early(w):
    """Once a task has a counter-model (or two undecided queries) its verdict cannot improve by exploring further paths;
    on a wrong body every further path costs several non-linear model searches, so the exploration ends there.
    Never triggers on a tree that satisfies the contract."""
    s = _SPENT.get(w.task_name, [0, 0])
    if s[0] >= 1 or s[1] >= 2:
        # (the cover points guard against vacuous *proofs*; the task is no proof any more, so they are not reported as missing)
        getattr(w, "covered", set()).update({"plain product branch", "snaking branch"})
        raise PathEnd("task already refuted / undecided")


def note_results(w):
    s = _SPENT.setdefault(w.task_name, [0, 0])
    s[0] += sum(1 for r in w.results if r.status == "sat")
    s[1] += sum(1 for r in w.results if r.status == "unknown")


def check_f1(I, res, Lt, sn, vals, keys, t, N, rp, names=(E_N, E_KEYS, E_POS, E_EXC), posf=pos):
    try:
        _check_f1(I, res, Lt, sn, vals, keys, t, N, rp, names, posf)
    finally:
        note_results(I.w)


def _check_f1(I, res, Lt, sn, vals, keys, t, N, rp, names, posf):
    w = I.w
    e_n, e_keys, e_pos, e_exc = names
    if res[0] == "raise":
        w.fail(e_exc, dict(rp, exc=str(getattr(res[1], "cls", res[1]))))
        return
    out = res[1]
    if not is_cycler(out):
        w.fail(e_keys, rp)
        return
    allkeys = [k for ks in keys for k in ks]
    w.check(e_keys, len(out.keys) == len(allkeys) and set(out.keys) == set(allkeys), rp)
    w.check(e_n, Sym(out.n == N), rp)
    n = len(Lt)
    for i in range(n):
        R = prod_right(Lt[i + 1:])
        p = posf(t.t, Lt[i], R, sn[i].t)
        for j, key in enumerate(keys[i]):
            if key in out.cols:
                if not w.check(e_pos, Sym(out.cols[key](t.t) == vals[i][j](p)), dict(rp, axis=i, key=j)):
                    return          # one witness per path is enough


def _mk_f1(n, nkeys):
    label = f"n={n},keys={''.join(map(str, nkeys))}"

    @task(f"snake_cyclers[{label}]", PROP, functions=[F], expect=[E_N, E_KEYS, E_POS],
          covers=["plain product branch"] + (["snaking branch"] if n > 1 else []))
    def t_(I):
        w = I.w
        stop_early(w)
        Ls, Lt, sn, vals, keys, cyclers, t, N = setup(I, n, nkeys)
        f = I.get_function(F)
        res = catch(I, f, cyclers, list(sn))
        seen = w.ghost.get("c26", [])
        at = [L == 2 for L in Lt] + [t.t == 1]
        if "operator.mul" in seen:
            cover_at(w, "plain product branch", *at)
        if "operator.add" in seen and "concatenate" in seen:
            cover_at(w, "snaking branch", *at)
        check_f1(I, res, Lt, sn, vals, keys, t, N, {"replay": "snake.f1", "n": n, "nkeys": list(nkeys)})


for _n in range(1, MAX_RANK + 1):
    for _nk in itertools.product((1, 2), repeat=_n):
        if _n <= 3 or _nk in ((1, 1, 1, 1), (1, 2, 1, 1)):
            _mk_f1(_n, _nk)


INST_BOUND = ("the same contract F1 on grids with concrete lengths 1..3 (n <= 3 axes, one key per axis), flags, values and step symbolic: "
              "linear arithmetic, so that a wrong body yields a small counter-model even where the solver gives up on the symbolic lengths")
E_INST = [e.replace("#ensures[", "#ensures(instance)[").replace("#no-", "#(instance)no-") for e in (E_N, E_KEYS, E_POS, E_EXC)]


def _mk_instance(n):
    @task(f"snake_cyclers.instances[n={n}]", PROP, functions=[F], bounded=INST_BOUND, expect=E_INST[:3])
    def t_(I):
        w = I.w
        stop_early(w)
        Ls, Lt, sn, vals, keys, cyclers, t, N = setup(I, n, (1,) * n)
        for i in range(n):
            w.add(Ls[i] == w.choose([1, 2, 3], f"L{i}"))
        res = catch(I, I.get_function(F), cyclers, list(sn))
        check_f1(I, res, Lt, sn, vals, keys, t, N, {"replay": "snake.f1", "n": n, "nkeys": [1] * n}, names=E_INST)


for _n in (1, 2, 3):
    _mk_instance(_n)


E_MISMATCH = f"{F}#raises[ValueError when the numbers of cyclers and of flags differ]"


@task("snake_cyclers[mismatched lengths]", PROP, functions=[F], expect=[E_MISMATCH])
def mismatch(I):
    w = I.w
    nc = w.choose([1, 2, 3], "number of cyclers")
    nb = w.choose([x for x in (0, 1, 2, 3, 4) if x != nc], "number of flags")
    Ls, Lt, sn, vals, keys, cyclers, t, N = setup(I, nc, (1,) * nc)
    flags = [w.bool(f"flag{i}") for i in range(nb)]
    res = catch(I, I.get_function(F), cyclers, flags)
    w.check(E_MISMATCH, res[0] == "raise" and exc_is(I, res[1], "ValueError"), {"replay": "snake.mismatch", "nc": nc, "nb": nb})


# ------------------------------------------------------------------------------------------------ must-fail twins of F1
TW1 = "twin:snake_cyclers reverses on the parity of the next slower axis index only"
TW2 = "twin:snake_cyclers reflects to L - d instead of L - 1 - d"


@task("snake_cyclers.twin[next slower digit]", PROP, functions=[F], twin=TW1)
def twin1(I):
    w = I.w
    n, nkeys = 3, (1, 1, 1)
    Ls, Lt, sn, vals, keys, cyclers, t, N = setup(I, n, nkeys)
    w.add(And(Not(sn[0]), Not(sn[1]), sn[2]))
    w.add(And(Ls[0] == 2, Ls[1] == 3, Ls[2] == 2))      # the two readings differ when a middle axis has odd length
    res = catch(I, I.get_function(F), cyclers, list(sn))

    def wrong(t_, L, R, s):
        d = digit(t_, L, R)
        nxt = digit(t_, Lt[1], Lt[2])            # index of axis 1; the true count is index0 * L1 + index1
        return z3.If(z3.And(s, nxt % 2 == 1), L - 1 - d, d) if z3.eq(L, Lt[2]) else d
    check_f1(I, res, Lt, sn, vals, keys, t, N, {"replay": "snake.f1", "n": n, "nkeys": list(nkeys)},
             names=("twin-aux:N", "twin-aux:keys", TW1, TW1), posf=wrong)


@task("snake_cyclers.twin[off by one reflection]", PROP, functions=[F], twin=TW2)
def twin2(I):
    w = I.w
    n, nkeys = 2, (1, 1)
    Ls, Lt, sn, vals, keys, cyclers, t, N = setup(I, n, nkeys)
    w.add(sn[1])
    res = catch(I, I.get_function(F), cyclers, list(sn))

    def wrong(t_, L, R, s):
        d = digit(t_, L, R)
        return z3.If(z3.And(s, slower(t_, L, R) % 2 == 1), L - d, d)
    check_f1(I, res, Lt, sn, vals, keys, t, N, {"replay": "snake.f1", "n": n, "nkeys": list(nkeys)},
             names=("twin-aux:N", "twin-aux:keys", TW2, TW2), posf=wrong)


# ================================================================================================ F2 / F3: consequences of the formula
def formula_setup(I, n):
    w = I.w
    Ls = [w.int(f"L{i}").t for i in range(n)]
    for L in Ls:
        w.add(Sym(L >= 1))
    sn = [w.bool(f"snake{i}").t for i in range(n)]
    R = [prod_right(Ls[i + 1:]) for i in range(n)]
    N = prod_left(Ls)
    add = lambda *fs: [w.add(Sym(f_)) for f_ in fs]
    for k in range(2, n + 1):
        add(LEM.inst("mulpos", prod_left(Ls[:k - 1]), Ls[k - 1]))
    for i in range(n):
        if R[i] is not None:
            add(LEM.inst("mulpos", Ls[i], R[i]))
    return Ls, sn, R, N, add


def X(t, R):
    return t if R is None else t / R


F2_RANGE = "lemma:C26.F2 every pos_i(t) is an index of axis i"
F2_INJ = "lemma:C26.F2 t -> (pos_0(t), .., pos_(n-1)(t)) is injective on [0, N)"
F2_SURJ = "lemma:C26.F2 every grid point is pos(t) of some t < N"
F3_ONE = "lemma:C26.F3 between consecutive steps exactly one axis is the moving axis"
F3_AXIS = ("lemma:C26.F3 the moving axis moves one index in its current direction, slower axes and snaked faster axes stay, "
           "unsnaked faster axes return from the last to the first index")
F3_SNAKED = "lemma:C26.F3 with all inner axes snaked consecutive points differ in exactly one axis by exactly one index"


def _mk_formula(n):
    @task(f"formula.F2[n={n}]", PROP, expect=[F2_RANGE, F2_INJ, F2_SURJ],
          covers=["two steps with equal positions (hypotheses satisfiable)", "a grid point (hypotheses satisfiable)"])
    def f2(I):
        w = I.w
        Ls, sn, R, N, add = formula_setup(I, n)
        which = w.choose(["range+injective", "surjective"], "clause")
        rp = {"replay": "snake.formula", "n": n, "clause": which}
        if which == "range+injective":
            t, u = w.int("t").t, w.int("u").t
            add(t >= 0, t < N, u >= 0, u < N)
            for i in range(n):
                w.check(F2_RANGE, Sym(z3.And(pos(t, Ls[i], R[i], sn[i]) >= 0, pos(t, Ls[i], R[i], sn[i]) < Ls[i])), rp)
            for y in (t, u):
                add(LEM.inst("small", y, Ls[0] * R[0]) if R[0] is not None else LEM.inst("small", y, Ls[0]))
                for i in range(n):
                    if R[i] is not None:
                        add(LEM.inst("divdiv", y, Ls[i], R[i]))
            for i in range(n):
                add(LEM.inst("j1", X(t, R[i]), X(u, R[i]), Ls[i]))
                add(pos(t, Ls[i], R[i], sn[i]) == pos(u, Ls[i], R[i], sn[i]))
            cover_at(w, "two steps with equal positions (hypotheses satisfiable)", *[L == 2 for L in Ls], t == 1)
            w.check(F2_INJ, Sym(t == u), rp)
            return
        p = [w.int(f"p{i}").t for i in range(n)]
        e = [w.int(f"e{i}").t for i in range(n)]
        x = []
        for i in range(n):
            add(p[i] >= 0, p[i] < Ls[i])
            prev = x[i - 1] if i else z3.IntVal(0)
            add(e[i] == z3.If(z3.And(sn[i], prev % 2 == 1), Ls[i] - 1 - p[i], p[i]))
            x.append(e[i] if i == 0 else x[i - 1] * Ls[i] + e[i])
            if i:
                add(LEM.inst("muladd", x[i - 1], e[i], Ls[i]), LEM.inst("bound", x[i - 1], e[i], prod_left(Ls[:i]), Ls[i]))
        t = x[n - 1]
        for i in range(n):
            if R[i] is not None:
                add(LEM.inst("divdiv", t, Ls[i], R[i]))
        add(LEM.inst("small", t, Ls[0] * R[0]) if R[0] is not None else LEM.inst("small", t, Ls[0]))
        cover_at(w, "a grid point (hypotheses satisfiable)", *[L == 2 for L in Ls], *[p_ == 1 for p_ in p])
        w.check(F2_SURJ, Sym(z3.And(t >= 0, t < N, *[pos(t, Ls[i], R[i], sn[i]) == p[i] for i in range(n)])), rp)

    @task(f"formula.F3[n={n}]", PROP, expect=[F3_ONE, F3_AXIS, F3_SNAKED], covers=["two consecutive steps (hypotheses satisfiable)"])
    def f3(I):
        w = I.w
        Ls, sn, R, N, add = formula_setup(I, n)
        t = w.int("t").t
        u = t + 1
        add(t >= 0, u < N)
        rp = {"replay": "snake.formula", "n": n, "clause": "continuity"}
        add(LEM.inst("small", u, Ls[0] * R[0]) if R[0] is not None else LEM.inst("small", u, Ls[0]))
        carry, wraps = [], []
        for i in range(n):
            L = Ls[i]
            if R[i] is not None:
                add(LEM.inst("k1", t, R[i]), LEM.inst("k2", t, R[i]), LEM.inst("divdiv", t, L, R[i]), LEM.inst("divdiv", u, L, R[i]),
                    LEM.inst("k5", u, R[i], L))
                carry.append(u % R[i] == 0)
                wraps.append(u % (L * R[i]) == 0)
            else:
                carry.append(z3.BoolVal(True))
                wraps.append(u % L == 0)
            x = X(t, R[i])
            add(LEM.inst("k1", x, L), LEM.inst("k2", x, L), LEM.inst("k3", x, L), LEM.inst("k4", x, L))
        moving = [z3.And(carry[i], z3.Not(wraps[i])) for i in range(n)]
        cover_at(w, "two consecutive steps (hypotheses satisfiable)", *[L == 2 for L in Ls], t == 0)
        w.check(F3_ONE, Sym(z3.Sum([z3.If(m, 1, 0) for m in moving]) == 1), rp)
        for i in range(n):
            L = Ls[i]
            a, b = pos(t, L, R[i], sn[i]), pos(u, L, R[i], sn[i])
            forth = z3.Or(z3.Not(sn[i]), slower(t, L, R[i]) % 2 == 0)
            w.check(F3_AXIS, Sym(z3.And(
                z3.Implies(z3.Not(carry[i]), b == a),
                z3.Implies(moving[i], b == z3.If(forth, a + 1, a - 1)),
                z3.Implies(wraps[i], z3.If(sn[i], b == a, z3.And(a == L - 1, b == 0))),
                # the three cases are about the slowest axis that changes: slower ones do not carry, faster ones wrap
                *[z3.Implies(moving[i], z3.Not(carry[j])) for j in range(i)],
                *[z3.Implies(moving[i], wraps[j]) for j in range(i + 1, n)])), dict(rp, axis=i))
        diffs = [z3.If(pos(u, Ls[i], R[i], sn[i]) == pos(t, Ls[i], R[i], sn[i]), 0, 1) for i in range(n)]
        dist = [z3.If(pos(u, Ls[i], R[i], sn[i]) >= pos(t, Ls[i], R[i], sn[i]), pos(u, Ls[i], R[i], sn[i]) - pos(t, Ls[i], R[i], sn[i]),
                      pos(t, Ls[i], R[i], sn[i]) - pos(u, Ls[i], R[i], sn[i])) for i in range(n)]
        w.check(F3_SNAKED, Sym(z3.Implies(z3.And(*sn[1:]) if n > 1 else z3.BoolVal(True),
                                          z3.And(z3.Sum(diffs) == 1, z3.Sum(dist) == 1))), rp)


for _n in range(1, MAX_RANK + 1):
    _mk_formula(_n)


TW3 = "twin:F3 consecutive points differ in exactly one axis even when an inner axis is not snaked"


@task("formula.F3.twin", PROP, twin=TW3)
def f3_twin(I):
    w = I.w
    n = 2
    Ls, sn, R, N, add = formula_setup(I, n)
    t = w.int("t").t
    u = t + 1
    add(t >= 0, u < N, Ls[0] == 2, Ls[1] == 2)
    diffs = [z3.If(pos(u, Ls[i], R[i], sn[i]) == pos(t, Ls[i], R[i], sn[i]), 0, 1) for i in range(n)]
    w.check(TW3, Sym(z3.Sum(diffs) == 1))


# ================================================================================================ the Lean-checked lemmas
LEAN = os.environ.get("VERIF_LEAN", "lean")


@task("lean.lemmas", PROP, expect=[f"lemma:C26.lean.{name} (Lean 4 kernel)" for name in LEM.LEMMAS])
def lean_lemmas(I):
    w = I.w
    bad = LEM.brute_force()
    if bad:
        raise EngineError(f"a lemma statement is false on small numbers (transcription slip): {bad[:3]}")
    src = LEM.lean_source()
    d = tempfile.mkdtemp(prefix="c26lean")
    path = os.path.join(d, "C26Lemmas.lean")
    with open(path, "w") as fh:
        fh.write(src)
    try:
        def _unlimited():
            # Lean reserves address space per thread: lift the worker's soft address-space ceiling (pyvc/runner.py) for this sub-process
            import resource
            resource.setrlimit(resource.RLIMIT_AS, (resource.getrlimit(resource.RLIMIT_AS)[1],) * 2)
        p = subprocess.run([LEAN, path], capture_output=True, text=True, timeout=600, cwd=d, preexec_fn=_unlimited)
    except (OSError, subprocess.TimeoutExpired) as ex:
        raise EngineError(f"Lean could not be run on the lemma file: {ex}")
    finally:
        try:
            os.unlink(path)
            os.rmdir(d)
        except OSError:
            pass
    out = p.stdout + p.stderr
    if p.returncode != 0 or "error" in out or "sorry" in out:
        raise EngineError(f"Lean rejected the lemma file (exit {p.returncode}): {out[-1500:]}")
    w.ghost["lean"] = {"sha256": hashlib.sha256(src.encode()).hexdigest(), "exit": p.returncode}
    for name in LEM.LEMMAS:
        lines = [l for l in out.splitlines() if l.startswith(f"'C26.{name}'")]
        ok = len(lines) == 1 and "sorryAx" not in lines[0] and ("does not depend on any axioms" in lines[0] or all(
            a.strip() in ("propext", "Classical.choice", "Quot.sound") for a in lines[0].split("[", 1)[1].rstrip("]").split(",")))
        if not ok:
            raise EngineError(f"Lean: unexpected axiom report for lemma {name}: {lines}")
        w.ok(f"lemma:C26.lean.{name} (Lean 4 kernel)")


def evidence_hook(ev, tier):
    src = LEM.lean_source()
    try:
        ver = subprocess.run([LEAN, "--version"], capture_output=True, text=True, timeout=60).stdout.strip()
    except (OSError, subprocess.TimeoutExpired):
        ver = "unavailable"
    ev["coverage"]["lean"] = {"lemmas": list(LEM.LEMMAS), "source_sha256": hashlib.sha256(src.encode()).hexdigest(), "lean": ver,
                              "imports": "none (core library only)", "generated_by": "contracts/c26_lemmas.py:lean_source"}


# ================================================================================================ callers (against the callee's contract)
OLP = f"{MP}:outer_list_product"
OP = f"{MP}:outer_product"
E_OLP = f"{OLP}#ensures[returns snake_cyclers(one cycler(motor_i, positions_i) per axis in the given order, documented flags)]"
E_OP = f"{OP}#ensures[returns snake_cyclers(one cycler(motor_i, linspace(start_i, stop_i, num_i)) per axis in the given order, given flags)]"


def hook_callee(I, calls):
    """snake_cyclers is used by contract (F1, proved above): the call is recorded and an abstract result returned"""
    def hook(I_, f, args, kwargs):
        out = opaque(I_, I_.w.fresh("snaked_grid"))
        calls.append((list(args), dict(kwargs), out))
        return out
        yield
    I.call_hooks[F] = hook


def partition_stub(I_, a, k):
    n, seq = a[0], list(I_.run(I_.iterate(a[1])))
    return [tuple(seq[i:i + n]) for i in range(0, len(seq) - n + 1, n)]


def axes_as_passed(I, calls, out, motors, seqs):
    """the single call snake_cyclers(cyclers, flags) whose result is returned; -> flags or None"""
    if len(calls) != 1 or out[0] != "ok" or out[1] is not calls[0][2] or calls[0][1] or len(calls[0][0]) != 2:
        return None
    cys, flags = calls[0][0]
    if not isinstance(cys, list) or len(cys) != len(motors) or not isinstance(flags, list) or len(flags) != len(motors):
        return None
    for c, m, s in zip(cys, motors, seqs):
        if not (is_cycler(c) and len(c.keys) == 1 and c.keys[0] is m and c.cols[m] is s.seq.f and c.n is s.seq.n):
            return None
    return flags


def _mk_callers(n):
    @task(f"outer_list_product[n={n}]", PROP, functions=[OLP], expect=[E_OLP])
    def olp(I):
        w = I.w
        install_stubs(I)
        w.stubs["cytools.partition"] = w.stubs["toolz.partition"] = partition_stub
        calls = []
        hook_callee(I, calls)
        motors = [opaque(I, f"motor{i}", isinstance_default=False) for i in range(n)]
        seqs = [mk_seq(I, Seq(w.int(f"L{i}").t, z3.Function(f"v{i}", z3.IntSort(), VAL)), "list") for i in range(n)]
        mode = w.choose(["False", "True", "list"], "snake_axes")
        if mode == "list":
            member = [w.choose([False, True], f"motor{i} listed") for i in range(n)]
            snake_axes = [m for m, b in zip(motors, member) if b]
            if not snake_axes:
                return            # an empty list is falsy: same as snake_axes=False
            want = member
        else:
            snake_axes = mode == "True"
            want = [mode == "True" and i > 0 for i in range(n)]
        args = [x for pair in zip(motors, seqs) for x in pair]
        out = catch(I, I.get_function(OLP), args, snake_axes)
        flags = axes_as_passed(I, calls, out, motors, seqs)
        # the flag of the first (slowest) axis has no effect on the trajectory (F1: s_0 = 0); it only has to be a boolean
        w.check(E_OLP, flags is not None and isinstance(flags[0], bool) and all(fl is wt for fl, wt in zip(flags[1:], want[1:])),
                {"replay": "snake.callers", "fn": "outer_list_product", "n": n, "mode": mode, "want": want})

    @task(f"outer_product[n={n}]", PROP, functions=[OP, f"{MP}:chunk_outer_product_args"], expect=[E_OP])
    def op(I):
        w = I.w
        install_stubs(I)
        w.stubs["cytools.partition"] = w.stubs["toolz.partition"] = partition_stub
        calls = []
        hook_callee(I, calls)
        lin = []

        def linspace(I_, a, k):
            if len(a) != 2 or set(k) != {"num", "endpoint"} or k["endpoint"] is not True:
                raise EngineError(f"numpy.linspace({a!r}, {k!r}) not modelled")
            s = mk_seq(I_, Seq(zt(k["num"]), z3.Function(f"linspace{len(lin)}", z3.IntSort(), VAL)), "ndarray")
            lin.append((a[0], a[1], k["num"], s))
            return s
        w.stubs["numpy.linspace"] = linspace
        motors = [opaque(I, f"motor{i}", isinstance={"Movable": True, "Readable": True}, isinstance_default=False) for i in range(n)]
        starts = [w.real(f"start{i}") for i in range(n)]
        stops = [w.real(f"stop{i}") for i in range(n)]
        nums = [w.int(f"num{i}") for i in range(n)]
        with_flags = n > 1 and w.choose([True, False], "args carry a snake flag per inner axis")
        flags_in = [False] + [w.bool(f"snake{i}") if with_flags else False for i in range(1, n)]
        args = []
        for i in range(n):
            args += [motors[i], starts[i], stops[i], nums[i]] + ([flags_in[i]] if i and with_flags else [])
        out = catch(I, I.get_function(OP), args)
        ok = len(lin) == n and all(l[0] is starts[i] and l[1] is stops[i] and l[2] is nums[i] for i, l in enumerate(lin))
        flags = axes_as_passed(I, calls, out, motors, [l[3] for l in lin]) if ok else None
        w.check(E_OP, flags is not None and isinstance(flags[0], bool) and all(fl is wt for fl, wt in zip(flags[1:], flags_in[1:])),
                {"replay": "snake.callers", "fn": "outer_product", "n": n})


for _n in (1, 2, 3):
    _mk_callers(_n)


# ================================================================================================ bounded stand-in (native)
SWEEP_BOUND = ("native comparison of the real snake_cyclers (real numpy and cycler) with formula F1 and with the statement's clauses "
               "(permutation of the product, continuity) on all grids with lengths <= 6/5/4/3 for 1/2/3/4 axes and all flag vectors "
               "(thorough: <= 8/6/5/4/3 for 1..5 axes), plus 100 (600) seeded random grids of up to 5 axes and 20000 points")
E_SWEEP = "bounded:C26 real snake_cyclers = F1, is a permutation of the product and continuous, on every grid of the stated scope"


@task("native.sweep", PROP, bounded=SWEEP_BOUND, expect=[E_SWEEP], timeout_s=3600)
def native_sweep(I):
    from pyvc.runner import ROOT
    tier = os.environ.get("VERIF_TIER", "quick")
    env = dict(os.environ, PYTHONPATH=ROOT, VERIF_REPO=os.environ.get("VERIF_REPO", "/repo"))
    try:
        p = subprocess.run(["/venv/bin/python", os.path.join(ROOT, "replay", "snake.py"), "sweep", tier], capture_output=True,
                           text=True, timeout=3000, cwd=ROOT, env=env)
    except subprocess.TimeoutExpired:
        raise EngineError("native sweep timed out")
    line = [l for l in p.stdout.splitlines() if l.startswith("SWEEP ")]
    if p.returncode != 0 or not line:
        raise EngineError(f"native sweep failed to run: {(p.stdout + p.stderr)[-800:]}")
    r = json.loads(line[-1][6:])
    if r["grids"] < 1000 and not r["failures"]:
        raise EngineError(f"native sweep covered only {r['grids']} grids")
    I.w.check(E_SWEEP, not r["failures"], {"replay": "snake.sweep_replay", "failures": r["failures"][:3], "grids": r["grids"]})
