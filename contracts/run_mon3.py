"""Ghost monitors for C11 (suspension protocol) and C06 (device clean-up ledger) over the events of a T2 scenario."""
from .lib import *
from .run_lib import *
from .run_mon import REQ, is_exc
from .run_mon2 import Mon
from .run_scn import DEV, MOT


# ---------------------------------------------------------------------------------------------------------- C11
class C11(Mon):
    """phases of the suspension protocol: None -> 'requested' (state moved to suspending) -> 'started' (_start_suspender handled: pre-plan + wait)
    -> 'released' (the condition was released: post-plan, then rewind) -> None (first replayed / plan message after the post-plan).
    Suspensions may nest (a second one is requested while the helper plan of the first is stacked): `records` holds one entry per suspension
    in effect - (condition, post-plan, 'started' | 'released') in the order their _start_suspender was executed; the innermost one runs first."""
    fields = ("phase", "moved", "stopped_after_move", "in_effect")
    BOOKKEEPING = ("rewindable", "wait_for", "_resume_from_suspender", "_start_suspender")
    P0 = f"{REQ}.request_suspend#ensures[once a suspension has taken effect the next message executed is the suspender's own, not the plan's]"
    P1 = f"{REQ}._start_suspender#ensures[the plan stays held until the suspender's condition is released]"
    P1B = f"{REQ}._start_suspender#ensures[while suspended only the suspender's pre-plan runs: no message of the plan, none replayed]"
    P1O = (f"{REQ}._start_suspender#ensures[overlapping suspensions: no message of the plan runs, none is replayed, until the condition of every suspension "
           "in effect has been released]")
    P1C = f"{REQ}._start_suspender#ensures[the suspender's pre-plan has run to its end when the engine starts to wait for the condition]"
    P3 = f"{REQ}._start_suspender#ensures[after the release the post-plan runs to its end before the plan is rewound and continues]"

    def __init__(self, sc, tr):
        self.sc, self.tr, self.I, self.w, self.eng = sc, tr, sc.I, sc.w, sc.eng
        self.phase = None
        self.records = ()                # suspensions in effect: [condition, post-plan, state]
        self.moved = False               # the motor was set during this call
        self.stopped_after_move = True   # ... and told to stop after its last set
        self.eng.ghost.setdefault("on_transition", []).append(self.on_transition)
        sc.I.setattr(sc.re, "msg_hook", native(lambda I_, a, k: self.eng.event("msg", a[0])))

    def on_transition(self, fr, to):
        if to == "suspending" and self.phase is None and not self.sc.plan.done:
            self.phase = "requested"

    def clean(self):
        tr = self.tr
        return not tr.term_requested and not (tr.interrupters - {"suspend"}) and not tr.failed_pause and not tr.nonresumable_seen

    @staticmethod
    def released(c):
        return c is not None and bool(getattr(c, "fired", False) or c.value)

    @property
    def in_effect(self):
        return tuple((getattr(c, "label", None), self.released(c), getattr(post, "done", None), st, getattr(pre, "done", None)) for c, post, st, pre in self.records)

    @staticmethod
    def condition_of(m):
        """the condition (model event) whose wait was given to request_suspend, from the _start_suspender message"""
        fut = m.args[3] if len(m.args) > 3 else None
        obj = getattr(fut, "obj", None)
        return obj.attrs.get("$model") if isinstance(obj, Opaque) else None

    def suspended(self, m, info):
        """a message executed while at least one suspension is in effect (phase 'started' / 'released')"""
        w, sc, cmd = self.w, self.sc, m.command
        info = dict(info, message=cmd, in_effect=[getattr(r[0], "label", None) for r in self.records], **getattr(sc, "info", {}))
        if cmd == "_start_suspender":
            # (also an overlapping one: it is stacked on top and completes first)
            # the pre / post plans are those REQUESTED together with this condition (the roles as the environment gave them to request_suspend,
            # not as the message happens to carry them); several requests may share a condition: they start in some order, any match will do
            c = self.condition_of(m)
            cands = [r for r in getattr(sc, "suspensions", []) if not r["started"] and r["cond"] is c]
            mine = [r for r in cands if r["pre"] is not None and any(a is r["pre"] or a is r["post"] for a in m.args[:2])]
            req = (mine or cands or [None])[0]
            if req is not None:
                req["started"] = True
                pre, post = req["pre"], req["post"]
            else:
                pre, post = (m.args[0] if m.args else None), (m.args[1] if len(m.args) > 1 else None)
            self.records = self.records + ((c, post, "started", pre),)
            self.phase = "started"
            return
        if cmd == "_resume_from_suspender":
            idx = [i for i, r in enumerate(self.records) if r[2] == "started"]
            if idx:
                i = idx[-1]              # stack discipline: the innermost suspension still waiting
                c, post, _, pre = self.records[i]
                if self.clean():
                    w.check(self.P1, self.released(c), dict(info, condition=getattr(c, "label", None)))
                    w.ok(self.P1B)
                    w.ok(f"{REQ}.__call__#ensures[control does not return to the caller while the plan is suspended]")
                self.records = self.records[:i] + ((c, post, "released", pre),) + self.records[i + 1:]
            self.phase = "started" if any(r[2] == "started" for r in self.records) else "released"
            return
        post_of = next((p for p in sc.post_plans if m is p.last_msg), None)
        if post_of is not None:
            # a post-plan's message: only after the condition of its own suspension was released
            rec = next((r for r in self.records if r[1] is post_of), None)
            if rec is not None and self.clean():
                w.check(self.P1B, self.released(rec[0]), dict(info, note="a post-plan message before the condition of its suspension was released"))
            return
        if cmd == "wait_for":
            waiting = [r for r in self.records if r[2] == "started"]
            if waiting and hasattr(waiting[-1][3], "done") and self.clean():
                w.check(self.P1C, waiting[-1][3].done, info)
            return
        if cmd == "rewindable" or any(m is p.last_msg for p in sc.pre_plans):
            return
        # a message of the plan, or a replayed one
        if self.clean():
            if any(r[2] == "started" for r in self.records):
                w.check(self.P1B, False, info)
            held = [getattr(r[0], "label", None) for r in self.records if not self.released(r[0])]
            w.check(self.P1O, not held, dict(info, unreleased=held))
            if all(r[2] == "released" for r in self.records):
                posts = [r[1] for r in self.records if r[1] is not None and hasattr(r[1], "done")]
                if posts:
                    # the first replayed / plan message after the suspension(s): every post-plan must be over by now
                    w.check(self.P3, all(p.done for p in posts), info)
        self.records = ()
        self.phase = None

    def __call__(self, kind, *a):
        w, sc, I = self.w, self.sc, self.I
        info = {"requests": list(sc.requests), "replay": "lifecycle.replay", "phase": self.phase, **getattr(sc, "info", {})}
        if kind == "call" and a[0] == "__call__":
            self.phase, self.moved, self.stopped_after_move = None, False, True
            self.records = ()
            return
        if kind == "dev-set":
            self.moved, self.stopped_after_move = True, False
        elif kind == "dev-stop":
            self.stopped_after_move = True
        elif kind == "msg":
            m = a[0]
            cmd = m.command
            if self.phase == "requested":
                if self.clean():
                    w.check(self.P0, cmd == "_start_suspender", dict(info, message=cmd))
                if cmd == "_start_suspender":
                    self.suspended(m, info)
            elif self.phase in ("started", "released"):
                self.suspended(m, info)
        elif kind == "cut" and self.phase == "started":
            # _start_suspender has run (we are at a scheduling point after it): every moved device was told to stop, interruptions recorded
            if not getattr(self, "_checked_stop", False):
                self._checked_stop = True
                if self.clean():
                    w.check(f"{REQ}._start_suspender#ensures[at suspension every device that was moved has been told to stop]",
                            (not self.moved) or self.stopped_after_move, info)
        elif kind == "record_interruption" and self.phase in ("requested", "started"):
            w.check(f"{REQ}._start_suspender#ensures[the interruption is recorded in every open run with the suspender's justification]",
                    a[1] == ("beam dump" if sc.suspend_plans else "suspended"), dict(info, content=repr(a[1])))
        elif kind == "returned":
            name, r = a
            if name in ("__call__", "resume") and self.phase in ("started",) and self.clean() and self.tr.plan_outcome is None:
                w.check(f"{REQ}.{name}#ensures[control does not return to the caller while the plan is suspended]", False,
                        dict(info, call=name, result=repr(r)[:80], state=self.eng.state))
            if self.eng.state == "idle":
                self.phase = None
                self.records = ()
        if self.phase != "started":
            self._checked_stop = False


def c11_checks(sc, tr):
    tr.checks.append(C11(sc, tr))


# ---------------------------------------------------------------------------------------------------------- C06
class C06(Mon):
    fields = ("staged", "moved_unstopped", "subs")

    def __init__(self, sc, tr):
        self.sc, self.tr, self.I, self.w, self.eng = sc, tr, sc.I, sc.w, sc.eng
        self.staged = False              # the device's last stage-related call was stage()
        self.moved_unstopped = False     # the motor was set and not told to stop since
        self.subs = ()                   # per-call subscription tokens handed out during this call

    def __call__(self, kind, *a):
        w, sc, I = self.w, self.sc, self.I
        info = {"requests": list(sc.requests), "replay": "lifecycle.replay"}
        if kind == "dev-stage":
            self.staged = True
        elif kind == "dev-unstage":
            self.staged = False
        elif kind == "dev-set":
            self.moved_unstopped = True
        elif kind == "dev-stop":
            self.moved_unstopped = False
        elif kind == "returned":
            name, r = a
            if self.eng.state == "idle":
                w.check(f"{REQ}._run#ensures[at idle every device staged during the call has been unstaged]", not self.staged, dict(info, call=name))
                w.check(f"{REQ}._run#ensures[at idle every device that was set has been told to stop after its last set]", not self.moved_unstopped,
                        dict(info, call=name))
                flyers = [b for b in self.eng.bundlers if getattr(b, "uncollected", False)]
                w.check_kf(f"{REQ}._run#ensures[at idle every kicked-off flyer has been collected or a collection attempted]", not flyers, KF_C06,
                           all(getattr(b, "closed_by_plan", False) for b in flyers), dict(info, call=name))
                mons = [b for b in self.eng.bundlers if getattr(b, "monitoring", False)]
                w.check(f"{REQ}._run#ensures[at idle every monitor subscription installed by a run has been removed]", not mons, dict(info, call=name))
                # the per-call subscriptions handed out during this call (they may live until the next call starts)
                self.subs = tuple(I.getattr(sc.re, "_temp_callback_ids"))
        elif kind == "plan-start" and getattr(a[0], "name", "") == "plan2":
            # the next call has started: the per-call subscriptions of the previous call are gone from the dispatcher
            tm = I.getattr(I.getattr(sc.re, "dispatcher"), "_token_mapping")
            left = [t for t in self.subs if t in tm]
            w.check(f"{REQ}._clear_call_cache#ensures[per-call subscriptions are removed from the dispatcher before the next call starts]", not left,
                    dict(info, left=len(left)))
            self.subs = ()


KF_C06 = "C06-flyer-of-plan-closed-run-never-collected"


def c06_checks(sc, tr):
    tr.checks.append(C06(sc, tr))
