"""C43 - PersistentDict keeps what was last written.

Carrier: bluesky/utils: PersistentDict.__init__ (incl. the nested garbage-collection callback `finalize`), __setitem__,
__getitem__, __delitem__, popitem, flush, reload, __iter__, __len__ (+ the MutableMapping mix-ins pop / clear / update /
setdefault / items ..., defined through those).

Abstract state (ghost, written from the statement):
  mem     : key -> contents the mapping shows now       (set / in-place edit / reload change it)
  written : key -> contents at the last write of the key (set / update / setdefault-new / flush; delete / pop remove it)
Top-level values are objects with *mutable contents* (a symbolic integer stands for everything msgpack round-trips); an
in-place edit changes the contents of the object obtained through the real __getitem__, dump() snapshots the contents,
load() gives a new object with the snapshot.

Representation invariant INV(instance, directory):
  R1  the mapping (real __iter__ / __getitem__ / __len__) shows exactly mem,
  R2  the directory (zict.File store) holds exactly dump(written),                       dom(mem) == dom(written),
  R3  the garbage-collection write-back is armed: a weakref.finalize registered for the instance is alive, and every alive
      one reads the very dictionary the instance uses as its cache and writes to the instance's file store
      (= "what the finalizer will write is the mapping's final contents").
Step contract (task `step`): from an *arbitrary* INV state (0-2 generic existing keys, each clean or edited in place and
not yet flushed; a new key) every public operation has its dictionary effect on (mem, written), re-establishes INV, and a
closing of the instance right after it gives:  no finalizer run (crash / kill)  -> a new instance shows `written`;
garbage collection (the documented write-back runs) -> a new instance shows `mem`.  __init__ establishes INV for the
new instance.  By induction over the history (set of a new / existing key / of the very object already stored, delete,
pop, popitem, clear, update, setdefault, in-place edit, flush, reload, reads, absent-key errors; any reopen points, either
kind of closing): the statement.  Methods the class defines itself (e.g. an added pop / clear override) are executed
instead of the assumed mix-in.
Known finding C43-reload-detaches-gc-writeback: the unchanged reload() rebinds self._cache and so breaks R3 (see
patches/C43-reload-keeps-cache-identity.diff and patches/C43-reload-detaches-gc-writeback.known.json).
Task family `history-*` re-checks the end-to-end clause on every operation sequence of length 3 (incl. reopen points) from
a mixed state - a bounded cross-check of the invariant's strength with directly observable counter-examples.
"""
from .lib import *

PROP = "C43"
MU = "bluesky.utils"
Q = f"{MU}:PersistentDict"
KF = "C43-reload-detaches-gc-writeback"
TRUSTED = ["zict.File(dir) is a persistent map str -> bytes bound to the directory (update(pairs) stores every pair); zict.Func(dump, load, d)[k] = v stores dump(v), reading gives load(stored), items() loads every stored pair",
           "A-MSGPACK: load(dump(v)) is a new object with v's contents at the time of the dump, for the property's value domain (contents = one symbolic integer per object, changed by an in-place edit)",
           "collections.abc.MutableMapping mix-ins: pop / clear / update / setdefault / items / keys / values / get / __contains__ are defined through __getitem__ / __setitem__ / __delitem__ / popitem / __iter__ (CPython's definitions)",
           "weakref.finalize(obj, f, *args): one-shot - the first call (or obj's garbage collection / interpreter exit) runs f(*args) and makes it dead, later calls do nothing; detach() disarms it; a crash / kill runs nothing",
           "garbage collection of an instance = its alive finalizers run (latest registered first), nothing else touches the directory",
           "keys are used only as dictionary keys (generic representatives 'a', 'b' for existing keys, 'c' for a new one, 'zz' for an absent one)"]
NOT_DECIDED = ("crashes *inside* one operation (between the cache update and the file write); two live instances on one directory; "
               "values outside msgpack's round trip (tuples come back as lists ...); the file system itself (zict.File)")

INV_CACHE = f"{Q}#invariant[R1: after every operation the mapping shows exactly the keys and contents of the dictionary model]"
INV_DISK = f"{Q}#invariant[R2: after every operation the directory holds exactly the last written contents of exactly the present keys]"
INV_FIN = f"{Q}#invariant[R3: after every operation the garbage-collection write-back is armed and reads the instance's current cache]"
OP_RES = f"{Q}#ensures[every operation returns / raises what a dict would (KeyError for absent keys, no other exception)]"
CLOSE_CRASH = f"{Q}#ensures[reopened without the finalizer having run: exactly the keys and contents last set / flushed, deleted and popped keys absent]"
CLOSE_GC = f"{Q}#ensures[reopened after garbage collection of the instance: exactly the final keys and contents (write-back of unflushed in-place edits, nothing stale)]"
INIT_ENS = f"{Q}.__init__#ensures[a new instance shows load(stored) for exactly the stored keys and arms the write-back on its own cache (INV)]"
HIST = f"{Q}#ensures[history of 3 operations + closing: the reopened mapping holds exactly what was last written]"


class Val(Opaque):
    """a top-level value: an object with mutable contents"""

    def __init__(self, name, content):
        Opaque.__init__(self, name, {"token": "value", "truth": True})
        self.content = content


class Stored:
    """what zict.File holds for a key: the dump of a value = a snapshot of its contents"""

    def __init__(self, content):
        self.content = content


def _ret(v):
    return v
    yield


class Env:
    """assumed contracts of zict / weakref / msgpack + the registry of finalizers"""

    def __init__(self, I):
        self.I = I
        self.disks = {}
        self.finalizers = []
        self.n = 0
        w = I.w
        env = self

        def mapping(name, d, enc, dec):
            """a MutableMapping over the store d: writing stores enc(value), reading gives dec(stored)"""
            def getitem(I2, o, key):
                return dec(I2, d[key]) if key in d else I2.raise_("KeyError", key)

            def setitem(I2, o, key, v):
                d[key] = enc(I2, v)

            def delitem(I2, o, key):
                if key not in d:
                    I2.raise_("KeyError", key)
                del d[key]

            def update(I2, o, a2, k2):
                for src in list(a2) + [k2]:
                    pairs = list(src.items()) if isinstance(src, dict) else [tuple(p) for p in I2.run(I2.iterate(src))]
                    for kk, vv in pairs:
                        d[kk] = enc(I2, vv)

            def pop(I2, o, a2, k2):
                if a2[0] not in d:
                    return a2[1] if len(a2) > 1 else I2.raise_("KeyError", a2[0])
                return dec(I2, d.pop(a2[0]))
            return Opaque(name, {"attrs": {"$store": d}, "isinstance_default": False, "truth": True,
                                 "getitem": getitem, "setitem": setitem, "delitem": delitem,
                                 "contains": lambda I2, o, key: key in d, "iter": lambda I2, o: list(d), "len": lambda I2, o: len(d),
                                 "methods": {"update": update, "pop": pop,
                                             "items": lambda I2, o, a2, k2: [(kk, dec(I2, vv)) for kk, vv in d.items()],
                                             "keys": lambda I2, o, a2, k2: list(d),
                                             "values": lambda I2, o, a2, k2: [dec(I2, vv) for vv in d.values()],
                                             "get": lambda I2, o, a2, k2: dec(I2, d[a2[0]]) if a2[0] in d else (a2[1] if len(a2) > 1 else None),
                                             "clear": lambda I2, o, a2, k2: d.clear(),
                                             "flush": lambda I2, o, a2, k2: None, "close": lambda I2, o, a2, k2: None}})

        def zfile(I_, a, k):
            d = env.disks.setdefault(a[0], {})
            return mapping(f"zict.File({a[0]})", d, lambda I2, v: v, lambda I2, s: s)

        def zfunc(I_, a, k):
            dump, load, f = a
            d = f.spec["attrs"]["$store"]
            return mapping("zict.Func", d, lambda I2, v: I2.call_value(dump, v), lambda I2, s: I2.call_value(load, s))

        def finalize(I_, a, k):
            obj, func, args = a[0], a[1], list(a[2:])
            st = {"alive": True, "obj": obj, "func": func, "args": args, "kwargs": dict(k)}

            def call(I2, o, a2, k2):
                if not st["alive"]:
                    return None
                st["alive"] = False
                return I2.call_value(st["func"], *st["args"], **st["kwargs"])

            def detach(I2, o, a2, k2):
                if not st["alive"]:
                    return None
                st["alive"] = False
                return (st["obj"], st["func"], tuple(st["args"]), st["kwargs"])

            def peek(I2, o, a2, k2):
                return (st["obj"], st["func"], tuple(st["args"]), st["kwargs"]) if st["alive"] else None
            f = Opaque("weakref.finalize", {"truth": True, "isinstance_default": False, "state": st,
                                            "methods": {"__call__": call, "detach": detach, "peek": peek},
                                            "dyn_attrs": {"alive": lambda I2, o: st["alive"]}, "attrs": {"atexit": True}})
            env.finalizers.append(f)
            return f
        w.stubs["zict.File"] = zfile
        w.stubs["zict.Func"] = zfunc
        w.stubs["weakref.finalize"] = finalize
        I.call_hooks[f"{Q}._dump"] = lambda I_, f, a, k: _ret(self.dump(a[-1]))
        I.call_hooks[f"{Q}._load"] = lambda I_, f, a, k: _ret(self.load(a[-1]))

    # ---- A-MSGPACK
    def dump(self, v):
        if not isinstance(v, Val):
            raise EngineError(f"dump of a non-value {v!r}")
        return Stored(v.content)

    def load(self, s):
        if not isinstance(s, Stored):
            raise EngineError(f"load of something that was not dumped: {s!r}")
        self.n += 1
        return Val(f"loaded{self.n}", s.content)

    def value(self, what):
        """a fresh value with arbitrary contents"""
        self.n += 1
        return Val(f"value{self.n}", self.I.w.int(f"contents#{self.n}({what})"))

    def contents(self, what):
        self.n += 1
        return self.I.w.int(f"contents#{self.n}({what})")

    # ---- instances
    def open(self, directory="dir"):
        o = construct(self.I, Q, directory)
        add_mixins(self.I, o)
        return o

    def finalizers_of(self, o):
        return [f for f in self.finalizers if f.spec["state"]["obj"] is o]

    def collect(self, o):
        """garbage collection of the instance: its alive finalizers run"""
        for f in reversed(self.finalizers_of(o)):
            if f.spec["state"]["alive"]:
                self.I.call_value(f)

    def armed(self, o):
        """R3"""
        alive = [f.spec["state"] for f in self.finalizers_of(o) if f.spec["state"]["alive"]]
        if not alive:
            return False
        cache = o.attrs.get("_cache")
        stores = [x for x in (o.attrs.get("_file"), o.attrs.get("_func")) if x is not None]
        store = self.disks.get(o.attrs.get("_directory"))
        for st in alive:
            if not any(x is cache for x in st["args"]):
                return False
            if not any(any(x is s for s in stores) for x in st["args"]):
                return False
        return isinstance(cache, dict) and store is not None and all(isinstance(s, Opaque) and s.spec["attrs"]["$store"] is store for s in stores)


def add_mixins(I, o):
    """CPython's MutableMapping / Mapping mix-in methods, in terms of the object's own dunder methods"""
    MISSING = object()

    def pop(I_, a, k):
        key = a[0]
        try:
            v = I_.run(I_.getitem(o, key))
        except PyRaise as pr:
            if I_.exc_isinstance(pr.exc, "KeyError") and len(a) > 1:
                return a[1]
            raise
        I_.run(I_.delitem(o, key))
        return v

    def clear(I_, a, k):
        try:
            while True:
                call_method(I_, o, "popitem")
        except PyRaise as pr:
            if not I_.exc_isinstance(pr.exc, "KeyError"):
                raise

    def update(I_, a, k):
        for src in list(a) + [k]:
            for kk, vv in src.items():
                I_.run(I_.setitem(o, kk, vv))

    def setdefault(I_, a, k):
        try:
            return I_.run(I_.getitem(o, a[0]))
        except PyRaise as pr:
            if not I_.exc_isinstance(pr.exc, "KeyError"):
                raise
            I_.run(I_.setitem(o, a[0], a[1] if len(a) > 1 else None))
            return a[1] if len(a) > 1 else None

    def keys(I_, a, k):
        return list(I_.run(I_.iterate(o)))

    def items(I_, a, k):
        return [(kk, I_.run(I_.getitem(o, kk))) for kk in I_.run(I_.iterate(o))]

    def values(I_, a, k):
        return [I_.run(I_.getitem(o, kk)) for kk in I_.run(I_.iterate(o))]

    def get(I_, a, k):
        try:
            return I_.run(I_.getitem(o, a[0]))
        except PyRaise as pr:
            if not I_.exc_isinstance(pr.exc, "KeyError"):
                raise
            return a[1] if len(a) > 1 else None

    def contains(I_, a, k):
        try:
            I_.run(I_.getitem(o, a[0]))
        except PyRaise as pr:
            if not I_.exc_isinstance(pr.exc, "KeyError"):
                raise
            return False
        return True
    for name, f in (("pop", pop), ("clear", clear), ("update", update), ("setdefault", setdefault), ("items", items), ("keys", keys),
                    ("values", values), ("get", get), ("__contains__", contains)):
        if o.cls.lookup(name) is None:       # a method the class defines itself is the real one: never shadowed by the mix-in
            o.attrs[name] = native(f)


# ---------------------------------------------------------------------------------------------------------------------
# the dictionary model (from the statement) and the real operations, side by side

class Ghost:
    def __init__(self, contents):
        self.mem = dict(contents)
        self.written = dict(contents)
        self.reloaded = False      # reload() was called on the current instance (case of the known finding)


def same(got, want):
    """got: key -> contents (or None when the thing found is not a value); want: key -> contents"""
    if set(got) != set(want):
        return False
    if any(got[k] is None for k in got):
        return False
    return And(*[Eq(got[k], want[k]) for k in sorted(want)]) if want else True


def content(v):
    return v.content if isinstance(v, Val) else None


def is_content(v, c):
    return Eq(v.content, c) if isinstance(v, Val) else False


def shown(I, o):
    """what the real mapping shows: key -> contents (real __iter__ / __getitem__), and its real __len__"""
    ks = list(I.run(I.iterate(o)))
    return {k: content(I.run(I.getitem(o, k))) for k in ks}, (call_method(I, o, "__len__") == len(ks) and len(set(ks)) == len(ks))


def on_disk(env, directory="dir"):
    return {k: (s.content if isinstance(s, Stored) else None) for k, s in env.disks.get(directory, {}).items()}


def key_error(I, f):
    try:
        f()
    except PyRaise as pr:
        return I.exc_isinstance(pr.exc, "KeyError")
    return False


def apply_op(I, env, o, g, op):
    """run one public operation of the real class, update the model; -> the operation's own result is what a dict gives"""
    kind = op[0]
    k = op[1] if len(op) > 1 else None
    if kind == "set":
        v = env.value(f"set {k}")
        I.run(I.setitem(o, k, v))
        g.mem[k] = g.written[k] = v.content
        return True
    if kind == "reset":
        # d[k] = d[k]: the object already stored (possibly edited in place) is assigned again - a write like any other
        v = I.run(I.getitem(o, k))
        I.run(I.setitem(o, k, v))
        g.written[k] = g.mem[k]
        return isinstance(v, Val)
    if kind == "del":
        I.run(I.delitem(o, k))
        del g.mem[k], g.written[k]
        return True
    if kind == "del-missing":
        return key_error(I, lambda: I.run(I.delitem(o, "zz")))
    if kind == "popitem":
        if not g.mem:
            return key_error(I, lambda: call_method(I, o, "popitem"))
        r = call_method(I, o, "popitem")
        if not (isinstance(r, tuple) and len(r) == 2 and r[0] in g.mem):
            return False
        ok = is_content(r[1], g.mem[r[0]])
        del g.mem[r[0]], g.written[r[0]]
        return ok
    if kind == "pop":
        v = I.call_value(I.getattr(o, "pop"), k)
        ok = is_content(v, g.mem[k])
        del g.mem[k], g.written[k]
        return ok
    if kind == "pop-missing-default":
        dflt = env.value("default")
        return I.call_value(I.getattr(o, "pop"), "zz", dflt) is dflt
    if kind == "pop-missing":
        return key_error(I, lambda: I.call_value(I.getattr(o, "pop"), "zz"))
    if kind == "clear":
        I.call_value(I.getattr(o, "clear"))
        g.mem.clear()
        g.written.clear()
        return True
    if kind == "update":
        src = {kk: env.value(f"update {kk}") for kk in op[1]}
        I.call_value(I.getattr(o, "update"), src)
        for kk, v in src.items():
            g.mem[kk] = g.written[kk] = v.content
        return True
    if kind == "setdefault":
        v = env.value(f"setdefault {k}")
        r = I.call_value(I.getattr(o, "setdefault"), k, v)
        if k in g.mem:
            return is_content(r, g.mem[k])
        g.mem[k] = g.written[k] = v.content
        return r is v
    if kind == "mutate":
        # an in-place edit of the top-level value the mapping hands out: visible at once, durable with the next
        # flush() / write-back, never by itself
        v = I.run(I.getitem(o, k))
        if not isinstance(v, Val):
            return False
        v.content = g.mem[k] = env.contents(f"{k} edited in place")
        return True
    if kind == "flush":
        r = call_method(I, o, "flush")
        g.written = dict(g.mem)
        return r is None
    if kind == "reload":
        r = call_method(I, o, "reload")
        g.mem = dict(g.written)
        g.reloaded = True
        return r is None
    if kind == "read":
        ok = key_error(I, lambda: I.run(I.getitem(o, "zz")))
        ok = ok and I.call_value(I.getattr(o, "get"), "zz") is None
        ok = ok and I.call_value(I.getattr(o, "__contains__"), "zz") is False
        for kk in g.mem:
            ok = ok and I.call_value(I.getattr(o, "__contains__"), kk) is True
        return ok
    raise EngineError(f"unknown operation {op!r}")


def guarded(I, w, name, info, f):
    """an object-language exception escaping from an operation of the history is a violation of `name`, not an engine error"""
    try:
        return f()
    except PyRaise as pr:
        w.check(name, False, dict(info, raised=repr(pr.exc)))
        raise PathEnd("operation raised")


def close_and_reopen(I, env, o, mode):
    if mode == "gc":
        env.collect(o)
    o2 = env.open()
    return o2


def init_state(I, w, env, keys, dirty):
    """an arbitrary INV state: `keys` present; the ones in `dirty` edited in place since their last write"""
    cont = {k: w.int(f"contents({k})") for k in keys}
    env.disks["dir"] = {k: Stored(c) for k, c in cont.items()}
    o = env.open()
    g = Ghost(cont)
    for k in dirty:
        apply_op(I, env, o, g, ("mutate", k))
    return o, g


def ops_for(keys):
    ex = list(keys)
    ops_ = [("set", k) for k in ex + ["c"]] + [("reset", k) for k in ex] + [("del", k) for k in ex] + [("del-missing",), ("popitem",)] + [("pop", k) for k in ex]
    ops_ += [("pop-missing-default",), ("pop-missing",), ("clear",), ("update", tuple(ex[:1] + ["c"]))]
    ops_ += [("setdefault", k) for k in ex + ["c"]] + [("mutate", k) for k in ex] + [("flush",), ("reload",), ("read",)]
    return ops_


def opname(op):
    return op[0] if len(op) == 1 else f"{op[0]} {'+'.join(op[1]) if isinstance(op[1], tuple) else op[1]}"


KINDS = ["set", "reset", "del", "del-missing", "popitem", "pop", "pop-missing-default", "pop-missing", "clear", "update", "setdefault", "mutate", "flush",
         "reload", "read"]
STATES = [((), ()), (("a",), ()), (("a",), ("a",)), (("a", "b"), ()), (("a", "b"), ("a",)), (("a", "b"), ("b",)), (("a", "b"), ("a", "b"))]
FUNCS = [f"{Q}.__init__", f"{Q}.__setitem__", f"{Q}.__getitem__", f"{Q}.__delitem__", f"{Q}.popitem", f"{Q}.flush", f"{Q}.reload", f"{Q}.__iter__",
         f"{Q}.__len__"]


def js(op):
    return [op[0]] + [list(x) if isinstance(x, tuple) else x for x in op[1:]]


@task("step", PROP, functions=FUNCS,
      expect=[INIT_ENS, OP_RES, INV_CACHE, INV_DISK, INV_FIN, CLOSE_CRASH, CLOSE_GC],
      covers=["operation: " + k for k in KINDS] + ["state: empty", "state: an unflushed in-place edit", "state: two keys", "closing: crash", "closing: gc",
                                                  "popitem on an empty mapping"])
def step(I):
    w = I.w
    env = Env(I)
    keys, dirty = STATES[w.choose(list(range(len(STATES))), "state")]
    state = {"keys": list(keys), "dirty": list(dirty)}
    rp = {"replay": "persistent.step", "state": state}
    o, g = guarded(I, w, INIT_ENS, dict(rp, clause="init"), lambda: init_state(I, w, env, keys, dirty))
    got, len_ok = shown(I, o)
    w.check(INIT_ENS, And(len_ok, same(got, g.mem), same(on_disk(env), g.written), env.armed(o)), dict(rp, clause="init"))
    op = w.choose(ops_for(keys), "operation")
    rp = dict(rp, op=js(op))
    ok = guarded(I, w, OP_RES, dict(rp, clause="op"), lambda: apply_op(I, env, o, g, op))
    w.cover("operation: " + op[0])
    if not keys:
        w.cover("state: empty")
        if op[0] == "popitem":
            w.cover("popitem on an empty mapping")
    if dirty:
        w.cover("state: an unflushed in-place edit")
    if len(keys) == 2:
        w.cover("state: two keys")
    w.check(OP_RES, ok, dict(rp, clause="op"))
    got, len_ok = guarded(I, w, INV_CACHE, dict(rp, clause="cache"), lambda: shown(I, o))
    w.check(INV_CACHE, And(len_ok, same(got, g.mem)), dict(rp, clause="cache"))
    w.check(INV_DISK, And(same(on_disk(env), g.written), set(g.mem) == set(g.written)), dict(rp, clause="disk"))
    w.check_kf(INV_FIN, env.armed(o), KF, op[0] == "reload", dict(rp, clause="finalizer"))
    mode = w.choose(["crash", "gc"], "closing")
    w.cover("closing: " + mode)
    rp = dict(rp, close=mode, clause="close")
    name = CLOSE_GC if mode == "gc" else CLOSE_CRASH
    o2 = guarded(I, w, name, rp, lambda: close_and_reopen(I, env, o, mode))
    got, len_ok = guarded(I, w, name, rp, lambda: shown(I, o2))
    if mode == "gc":
        w.check_kf(CLOSE_GC, And(len_ok, same(got, g.mem)), KF, op[0] == "reload", rp)
    else:
        w.check(CLOSE_CRASH, And(len_ok, same(got, g.written)), rp)


# ---- bounded cross-check: all histories of length 3 (incl. reopen points) from a mixed state, closed either way
H_OPS = [("set", "a"), ("set", "c"), ("reset", "b"), ("del", "a"), ("pop", "b"), ("popitem",), ("clear",), ("mutate", "a"), ("mutate", "b"), ("flush",), ("reload",),
         ("reopen", "gc"), ("reopen", "crash")]
H_LEN = 3
H_BOUND = (f"histories of {H_LEN} operations out of {len(H_OPS)} (set existing / new / the same object again, delete, pop, popitem, clear, in-place edit, flush, reload, "
           "reopen after gc / crash) from the state {a: clean, b: edited in place}, then closing by gc or crash")


def applicable(op, g):
    if op[0] in ("del", "pop", "mutate", "reset"):
        return op[1] in g.mem
    return True


def run_history(I, w, first):
    env = Env(I)
    rp = {"replay": "persistent.history", "state": {"keys": ["a", "b"], "dirty": ["b"]}}
    o, g = init_state(I, w, env, ("a", "b"), ("b",))
    hist = []
    tainted_gc = False          # an instance on which reload() was called gets garbage collected (case of the known finding)
    for i in range(H_LEN):
        op = first if i == 0 else w.choose(H_OPS, f"operation {i + 1}")
        if not applicable(op, g):
            raise PathEnd("operation not applicable")
        hist.append(js(op))
        info = dict(rp, history=list(hist), close=None)
        if op[0] == "reopen":
            if op[1] == "gc":
                tainted_gc = tainted_gc or g.reloaded
                g.written = dict(g.mem)          # the write-back
            else:
                g.mem = dict(g.written)          # unflushed in-place edits die with the process
            g.reloaded = False
            o = guarded(I, w, HIST, info, lambda: close_and_reopen(I, env, o, op[1]))
        else:
            ok = guarded(I, w, HIST, info, lambda: apply_op(I, env, o, g, op))
            if ok is not True:
                w.check_kf(HIST, ok, KF, tainted_gc, info)
    mode = w.choose(["crash", "gc"], "closing")
    info = dict(rp, history=hist, close=mode)
    if mode == "gc":
        tainted_gc = tainted_gc or g.reloaded
    want = g.mem if mode == "gc" else g.written
    o2 = guarded(I, w, HIST, info, lambda: close_and_reopen(I, env, o, mode))
    got, len_ok = guarded(I, w, HIST, info, lambda: shown(I, o2))
    w.cover("history closed by " + mode)
    w.check_kf(HIST, And(len_ok, same(got, want)), KF, tainted_gc, info)


def _mk_history_task(first):
    @task("history-" + opname(first).replace(" ", "-"), PROP, functions=FUNCS, expect=[HIST], covers=["history closed by gc", "history closed by crash"],
          bounded=H_BOUND)
    def history_task(I):
        run_history(I, I.w, first)
    return history_task


for _first in H_OPS:
    _mk_history_task(_first)


# ---- must-fail twins
TWIN_CRASH = "twin:an in-place edit that was never flushed is durable even if the finalizer never runs"
TWIN_GC = "twin:after garbage collection the directory still holds the contents from before the unflushed in-place edit"


@task("twin-unflushed-edit-survives-crash", PROP, functions=FUNCS, twin=TWIN_CRASH)
def twin_crash(I):
    w = I.w
    env = Env(I)
    o, g = init_state(I, w, env, ("a",), ("a",))
    got, _ = shown(I, close_and_reopen(I, env, o, "crash"))
    w.check(TWIN_CRASH, same(got, g.mem))


@task("twin-gc-writes-nothing", PROP, functions=FUNCS, twin=TWIN_GC)
def twin_gc(I):
    w = I.w
    env = Env(I)
    o, g = init_state(I, w, env, ("a",), ("a",))
    got, _ = shown(I, close_and_reopen(I, env, o, "gc"))
    w.check(TWIN_GC, same(got, g.written))
