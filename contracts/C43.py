"""C43 - PersistentDict keeps what was last written.

Carrier: bluesky/utils: PersistentDict.__init__, __setitem__, __getitem__, __delitem__, popitem, flush, reload, __iter__,
__len__ (+ the MutableMapping mix-ins pop / clear / update / setdefault, defined through those).
Abstract state: disk(dir): key -> stored bytes (zict.File), cache: key -> value.  Representation invariant:
  dom(cache) == dom(disk)  and  load(disk[k]) == the value last passed for k through __setitem__ / flush.
Every public operation is proved, from an arbitrary state satisfying the invariant (two generic existing keys, one new
key), to re-establish it and to have its dict effect on the cache; reopening the directory (the real __init__ / reload)
yields exactly load(disk[k]) for every k.  By induction over the operation history: a reopened PersistentDict holds
exactly the keys and top-level values most recently set, deleted, popped or flushed.
"""
from .lib import *

PROP = "C43"
MU = "bluesky.utils"
Q = f"{MU}:PersistentDict"
TRUSTED = ["zict.File(dir) is a persistent map str -> bytes bound to the directory; zict.Func(dump, load, d)[k] = v stores dump(v), reading gives load(stored)",
           "A-MSGPACK: load(dump(v)) is v's value for the property's value domain (modelled as an opaque round trip)",
           "collections.abc.MutableMapping mix-ins: pop / clear / update / setdefault are defined through __getitem__ / __setitem__ / __delitem__ / popitem (CPython's definitions)",
           "weakref.finalize only registers a callback (the write at garbage collection is not modelled)",
           "keys are used only as dictionary keys (generic representatives 'a', 'b' for existing keys, 'c' for a new one)"]
NOT_DECIDED = "crashes inside one operation; the finalizer's write at garbage collection; two live instances on one directory"


class Stored:
    """what zict.File holds for a key: the dump of a value"""

    def __init__(self, value):
        self.value = value


def install(I, disks):
    w = I.w

    def zfile(I_, a, k):
        d = disks.setdefault(a[0], {})
        return Opaque(f"zict.File({a[0]})", {"attrs": {"$store": d}, "isinstance_default": False, "truth": True,
                                               "methods": {"update": lambda I2, o, a2, k2: d.update(dict(I2.run(I2.iterate(a2[0]))))}})

    def zfunc(I_, a, k):
        dump, load, f = a
        d = f.spec["attrs"]["$store"]

        def setitem(I2, o, key, v):
            d[key] = I2.call_value(dump, v)

        def delitem(I2, o, key):
            if key not in d:
                I2.raise_("KeyError", key)
            del d[key]
        return Opaque("zict.Func", {"setitem": setitem, "delitem": delitem, "isinstance_default": False, "truth": True,
                                    "getitem": lambda I2, o, key: I2.call_value(load, d[key]) if key in d else I2.raise_("KeyError", key),
                                    "methods": {"items": lambda I2, o, a2, k2: [(kk, I2.call_value(load, vv)) for kk, vv in d.items()]}})
    w.stubs["zict.File"] = zfile
    w.stubs["zict.Func"] = zfunc
    w.stubs["weakref.finalize"] = lambda I_, a, k: None
    I.call_hooks[f"{Q}._dump"] = lambda I_, f, a, k: _ret(Stored(a[-1]))
    I.call_hooks[f"{Q}._load"] = lambda I_, f, a, k: _ret(a[-1].value)


def _ret(v):
    return v
    yield


def open_dict(I, directory="dir"):
    o = construct(I, Q, directory)
    add_mixins(I, o)
    return o


def add_mixins(I, o):
    """CPython's MutableMapping mix-in methods, in terms of the object's own dunder methods"""
    def pop(I_, a, k):
        key = a[0]
        try:
            v = I_.run(I_.getitem(o, key))
        except PyRaise as pr:
            if I_.exc_isinstance(pr.exc, "KeyError") and len(a) > 1:
                return a[1]
            raise
        I_.run(I_.delitem(o, key))
        return v

    def clear(I_, a, k):
        try:
            while True:
                call_method(I_, o, "popitem")
        except PyRaise as pr:
            if not I_.exc_isinstance(pr.exc, "KeyError"):
                raise

    def update(I_, a, k):
        for src in list(a) + [k]:
            for kk, vv in src.items():
                I_.run(I_.setitem(o, kk, vv))

    def setdefault(I_, a, k):
        try:
            return I_.run(I_.getitem(o, a[0]))
        except PyRaise as pr:
            if not I_.exc_isinstance(pr.exc, "KeyError"):
                raise
            I_.run(I_.setitem(o, a[0], a[1] if len(a) > 1 else None))
            return a[1] if len(a) > 1 else None

    def items(I_, a, k):
        return [(kk, I_.run(I_.getitem(o, kk))) for kk in I_.run(I_.iterate(o))]
    for name, f in (("pop", pop), ("clear", clear), ("update", update), ("setdefault", setdefault), ("items", items)):
        o.attrs[name] = native(f)


def tok(name):
    return Opaque(name, {"token": "value", "truth": True})


def state(I, w, disks):
    """an arbitrary state satisfying the invariant: keys a, b present with values va, vb (possibly none / one / both)"""
    n = w.choose([0, 1, 2], "existing keys")
    vals = {k: tok(f"v_{k}") for k in ["a", "b"][:n]}
    disks["dir"] = {k: Stored(v) for k, v in vals.items()}
    o = open_dict(I)
    return o, vals


def reopened(I):
    o2 = open_dict(I)
    return {k: I.run(I.getitem(o2, k)) for k in I.run(I.iterate(o2))}


def same_map(got, want):
    return set(got) == set(want) and all(got[k] is want[k] for k in want)


OPS = ["setitem new", "setitem existing", "delitem", "delitem missing", "popitem", "pop", "clear", "update", "setdefault new", "setdefault existing",
       "mutate in place then flush"]
# (a value mutated in place and *not* flushed: whether it is persisted depends on the finalizer running at garbage
#  collection - not decided, see NOT_DECIDED)


@task("operations", PROP, functions=[f"{Q}.__init__", f"{Q}.__setitem__", f"{Q}.__getitem__", f"{Q}.__delitem__", f"{Q}.popitem", f"{Q}.flush",
                                     f"{Q}.reload", f"{Q}.__iter__", f"{Q}.__len__"],
      expect=[f"{Q}#invariant[cache and disk agree after every operation; reopening yields the last written values]",
              f"{Q}.__init__#ensures[a new instance on the directory holds load(disk[k]) for every stored k]"],
      covers=["operation: " + op for op in OPS])
def operations(I):
    w = I.w
    disks = {}
    install(I, disks)
    o, vals = state(I, w, disks)
    rp = {"replay": "persistent.history"}
    w.check(f"{Q}.__init__#ensures[a new instance on the directory holds load(disk[k]) for every stored k]",
            same_map({k: I.run(I.getitem(o, k)) for k in I.run(I.iterate(o))}, vals) and call_method(I, o, "__len__") == len(vals), rp)
    op = w.choose(OPS, "operation")
    want = dict(vals)
    new = tok("v_new")
    ok = True
    applicable = True
    if op == "setitem new":
        I.run(I.setitem(o, "c", new))
        want["c"] = new
    elif op == "setitem existing":
        if "a" not in vals:
            applicable = False
        else:
            I.run(I.setitem(o, "a", new))
            want["a"] = new
    elif op == "delitem":
        if "a" not in vals:
            applicable = False
        else:
            I.run(I.delitem(o, "a"))
            del want["a"]
    elif op == "delitem missing":
        r = catch(I, lambda: None) if False else None
        try:
            I.run(I.delitem(o, "zz"))
            ok = False
        except PyRaise as pr:
            ok = I.exc_isinstance(pr.exc, "KeyError")
    elif op == "popitem":
        if not vals:
            applicable = False
        else:
            k, v = call_method(I, o, "popitem")
            ok = k in vals and v is vals[k]
            del want[k]
    elif op == "pop":
        if "b" not in vals:
            applicable = False
        else:
            v = I.call_value(I.getattr(o, "pop"), "b")
            ok = v is vals["b"]
            del want["b"]
    elif op == "clear":
        I.call_value(I.getattr(o, "clear"))
        want = {}
    elif op == "update":
        I.call_value(I.getattr(o, "update"), {"a": new, "c": new})
        want["a"] = new
        want["c"] = new
    elif op == "setdefault new":
        r = I.call_value(I.getattr(o, "setdefault"), "c", new)
        ok = r is new
        want["c"] = new
    elif op == "setdefault existing":
        if "a" not in vals:
            applicable = False
        else:
            r = I.call_value(I.getattr(o, "setdefault"), "a", new)
            ok = r is vals["a"]
    elif op in ("mutate in place then flush", "mutate in place without flush"):
        if "a" not in vals:
            applicable = False
        else:
            # the cached top-level value is replaced behind the mapping's back (stands for an in-place mutation of a
            # mutable value): only flush() makes it persistent
            o._cache["a"] = new
            if op.endswith("then flush"):
                call_method(I, o, "flush")
                want["a"] = new
    if not applicable:
        return
    w.cover("operation: " + op)
    cache_now = {k: I.run(I.getitem(o, k)) for k in I.run(I.iterate(o))}
    cache_want = dict(want)
    if op == "mutate in place without flush":
        cache_want["a"] = new                 # visible in this instance, not persisted
    w.check(f"{Q}#invariant[cache and disk agree after every operation; reopening yields the last written values]",
            ok and same_map(cache_now, cache_want) and same_map(reopened(I), want), dict(rp, op=op))
