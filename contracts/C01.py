"""C01 - every opened run is a well-formed document stream, whatever happens.

Carriers: bluesky/bundlers.py: RunBundler.open_run, close_run, _prepare_stream, save, record_interruption,
monitor(.emit_event); bluesky/run_engine.py: RunEngine._open_run, _close_run, and the run-closing part of _run's epilogue.
Ghost: E(b) = the documents bundler b emitted, in order.  Representation invariant I_B of an open bundler:
  E[0] is the only 'start' and its uid is b._run_start_uid; no 'stop' in E; every descriptor in E has run_start = E[0].uid;
  every event in E references a descriptor that occurs earlier in E; every compose bundle stored in b._descriptors has
  had its descriptor emitted.
Step contracts (each from a state satisfying I_B, establishing I_B again):
  open_run -> E = [start] (+ interruptions descriptor); close_run: not open -> IllegalMessageSequence and E unchanged;
  open -> E' = E + [stop referencing E[0].uid], run_is_open' = False, so a second close is rejected (never two stops);
  if delivering the stop fails the run stays open and a later close is refused by the composer (still no second stop);
  every event emitter (save, record_interruption, the monitor callback) emits its descriptor before its first event.
RunEngine: _close_run closes exactly the run of its key and forgets it; the epilogue closes every run that is still
open and empties the registry (structural obligation here; its schedule-dependent part is T2 / C02).
Lemma (z3): from these contracts each run's documents are  start . (descriptor | event)* . stop  with one start, one
stop (once the engine is idle) and backward references only.
"""
import ast

from .lib import *
from .re_lib import *
from .C15 import device, reading, setup as bundle_setup
from .C16 import cfg_device

PROP = "C01"
Q = f"{MB}:RunBundler"
IMS = "bluesky.utils:IllegalMessageSequence"
TRUSTED = EM_ASSUMPTIONS + ["composed documents are schema-valid (event_model validates them; assumed)",
                            "asset documents supplied by devices (resource / datum / stream_*) are outside this contract (C45)"]
NOT_DECIDED = ("schema validity and uid uniqueness of device-supplied asset documents; old-style collect paths; cancellation landing "
               "inside the epilogue (C07); the epilogue's schedule-dependent part (C02)")


def well_formed(E, start_uid, closed):
    """the invariant I_B (plus the stop clause) evaluated on a concrete emission log"""
    if not E or E[0][0] != "start" or E[0][1]["uid"] != start_uid:
        return False
    if sum(1 for n, d in E if n == "start") != 1:
        return False
    stops = [i for i, (n, d) in enumerate(E) if n == "stop"]
    if closed != (len(stops) == 1) or (stops and (stops[0] != len(E) - 1 or E[-1][1]["run_start"] != start_uid)):
        return False
    seen_desc = set()
    uids = set()
    for n, d in E:
        if d["uid"] in uids:
            return False
        uids.add(d["uid"])
        if n == "descriptor":
            if d["run_start"] != start_uid:
                return False
            seen_desc.add(d["uid"])
        elif n == "event":
            if d["descriptor"] not in seen_desc:
                return False
    return True


@task("bundler.lifecycle", PROP, functions=[f"{Q}.open_run", f"{Q}.close_run", f"{Q}.save", f"{Q}.record_interruption", f"{Q}.monitor",
                                            f"{Q}.monitor.emit_event", f"{Q}._prepare_stream"],
      expect=[f"{Q}#invariant[I_B holds after open_run and after every emitter; descriptor precedes its events]",
              f"{Q}.close_run#ensures[exactly one stop referencing the start; a second close is rejected and emits nothing]"],
      covers=["closed twice", "monitor event", "interruption event"])
def lifecycle(I):
    w = I.w
    env = Env(I)
    rec = w.choose([True, False], "record_interruptions")
    b, uid = opened_bundler(I, env, record_interruptions=rec)
    w.stubs[(MB, "maybe_collect_asset_docs")] = native(lambda I_, a, k: [])
    w.stubs[(MB, "maybe_update_hints")] = native(lambda I_, a, k: None)
    w.stubs[(MB, "check_supports")] = native(lambda I_, a, k: a[0])
    w.stubs["asyncio.gather"] = lambda I_, a, k: Ready([run_coro(I_, c) if isinstance(c, GenObj) else c for c in a])
    name_inv = f"{Q}#invariant[I_B holds after open_run and after every emitter; descriptor precedes its events]"
    rp = {"replay": "bundler.lifecycle"}
    ok = well_formed(env.emitted, uid, False)
    # an arbitrary interleaving of the emitters (each one is a step from I_B to I_B; three steps exercise every pair)
    conf = {"gain": 1, "ts": 0}
    det = cfg_device(I, w, b, "det", ["x"], conf)
    sig = cfg_device(I, w, b, "sig", ["s"], {"gain": 2, "ts": 0})
    for step in range(3):
        what = w.choose(["bundle", "interruption", "monitor+update", "monitor update"], f"emitter {step}")
        if what == "bundle":
            call_async(I, I.getattr(b, "create"), MsgVal("create", None, (), {"name": "primary"}, None))
            call_async(I, I.getattr(b, "read"), MsgVal("read", det, (), {}, None), det.spec["methods"]["read"](I, det, (), {}))
            r = call_async(I, I.getattr(b, "save"), MsgVal("save", None, (), {}, None))
            ok = ok and r[0] == "ok"
        elif what == "interruption":
            call_method(I, b, "record_interruption", "pause")
            if rec:
                w.cover("interruption event")
        elif what == "monitor+update":
            if sig in b._monitor_params:
                continue
            r = call_async(I, I.getattr(b, "monitor"), MsgVal("monitor", sig, (), {"name": "mon"}, None))
            ok = ok and r[0] == "ok"
        else:
            if sig in b._monitor_params:
                I.call_value(b._monitor_params[sig][0])
                w.cover("monitor event")
        ok = ok and well_formed(env.emitted, uid, False)
    w.check(name_inv, ok, rp)
    n0 = len(env.emitted)
    status = w.choose(["success", "fail", None], "exit_status")
    r = call_async(I, I.getattr(b, "close_run"), MsgVal("close_run", None, (), {"exit_status": status, "reason": None}, None))
    r2 = call_async(I, I.getattr(b, "close_run"), MsgVal("close_run", None, (), {}, None))
    w.cover("closed twice")
    w.check(f"{Q}.close_run#ensures[exactly one stop referencing the start; a second close is rejected and emits nothing]",
            r[0] == "ok" and r[1] == uid and len(env.emitted) == n0 + 1 and well_formed(env.emitted, uid, True) and b.run_is_open is False
            and r2[0] == "raise" and exc_is(I, r2[1], IMS), rp)


@task("bundler.close_run.emit_fails", PROP, functions=[f"{Q}.close_run"],
      expect=[f"{Q}.close_run#ensures[if delivering the stop fails the run stays open and no second stop can ever be composed]"])
def close_emit_fails(I):
    w = I.w
    env = Env(I)
    b, uid = opened_bundler(I, env)
    boom = Obj(BUILTIN_CLASSES["ValueError"], {"args": ("callback failed",), "__cause__": None}, label="callback_error")
    composed = []

    def failing_emit(I_, a, k):
        composed.append((docname(a[0]), a[1]))
        return Ready(None, exc=boom)
    b.attrs["emit"] = native(failing_emit)
    r = call_async(I, I.getattr(b, "close_run"), MsgVal("close_run", None, (), {}, None))
    r2 = call_async(I, I.getattr(b, "close_run"), MsgVal("close_run", None, (), {"exit_status": "fail"}, None))
    w.check(f"{Q}.close_run#ensures[if delivering the stop fails the run stays open and no second stop can ever be composed]",
            r[0] == "raise" and r[1] is boom and b.run_is_open is True and r2[0] == "raise" and [n for n, d in composed] == ["stop"],
            {"replay": "bundler.lifecycle"})


@task("bundler.open_run.emit_fails", PROP, functions=[f"{Q}.open_run"],
      expect=[f"{Q}.open_run#ensures[a run whose start document went out is reported open - also when delivering it (or the interruptions descriptor) fails - so the engine will close it]"],
      covers=["start delivery fails", "descriptor delivery fails"])
def open_emit_fails(I):
    """some subscribers may already have received the start when a later one raises: from then on the run must count as open, or
    nobody will ever emit its stop (the engine's epilogue closes exactly the runs that report run_is_open)"""
    w = I.w
    env = Env(I)
    rec = w.choose([False, True], "record_interruptions")
    b = new_bundler(I, env, record_interruptions=rec)
    boom = Obj(BUILTIN_CLASSES["ValueError"], {"args": ("callback failed",), "__cause__": None}, label="callback_error")
    fail_at = w.choose(["start", "descriptor"] if rec else ["start"], "delivery that fails")
    sent = []

    def emit(I_, a, k):
        sent.append(docname(a[0]))
        if docname(a[0]) == fail_at:
            return Ready(None, exc=boom)
        return Ready(None)
    b.attrs["emit"] = native(emit)
    r = call_async(I, I.getattr(b, "open_run"), MsgVal("open_run", None, (), {}, None))
    w.cover("start delivery fails" if fail_at == "start" else "descriptor delivery fails")
    w.check(f"{Q}.open_run#ensures[a run whose start document went out is reported open - also when delivering it (or the interruptions descriptor) fails - so the engine will close it]",
            r[0] == "raise" and r[1] is boom and sent[0] == "start" and b.run_is_open is True, {"replay": "bundler.open_emit_fails", "fail_at": fail_at})


@task("bundler.close_run.monitors_suspended", PROP, functions=[f"{Q}.close_run", f"{Q}.suspend_monitors", f"{Q}.monitor", f"{Q}.clear_monitors"],
      expect=[f"{Q}.close_run#ensures[the stop is emitted also when the run's monitors are suspended and the device refuses to unsubscribe an unknown callback]"])
def close_monitors_suspended(I):
    """an abort / stop / failure arriving while the engine is paused or suspended closes runs whose monitors are not subscribed at that moment"""
    w = I.w
    env = Env(I)
    b, uid = opened_bundler(I, env)
    w.stubs[(MB, "check_supports")] = native(lambda I_, a, k: a[0])
    w.stubs["asyncio.gather"] = lambda I_, a, k: Ready([run_coro(I_, c) if isinstance(c, GenObj) else c for c in a])
    w.stubs[(MB, "maybe_update_hints")] = native(lambda I_, a, k: None)
    sig = cfg_device(I, w, b, "sig", ["s"], {"gain": 2, "ts": 0})
    subs = []
    bad = Obj(BUILTIN_CLASSES["ValueError"], {"args": ("callback is not subscribed",), "__cause__": None}, label="strict_device")

    def subscribe(I_, o, a, k):
        subs.append(a[0])

    def clear_sub(I_, o, a, k):
        if not any(a[0] is c for c in subs):
            raise PyRaise(bad)
        subs[:] = [c for c in subs if c is not a[0]]
    sig.spec["methods"]["subscribe"] = subscribe
    sig.spec["methods"]["clear_sub"] = clear_sub
    r0 = call_async(I, I.getattr(b, "monitor"), MsgVal("monitor", sig, (), {"name": "mon"}, None))
    suspended = w.choose([True, False], "monitors suspended when the run is closed")
    if suspended:
        call_async(I, I.getattr(b, "suspend_monitors"))
    via_epilogue = w.choose([True, False], "clear_monitors first (the engine's epilogue)")
    if via_epilogue:
        catch(I, I.getattr(b, "clear_monitors"))
    n0 = len(env.emitted)
    r = call_async(I, I.getattr(b, "close_run"), MsgVal("close_run", None, (), {"exit_status": "abort", "reason": ""}, None))
    w.check(f"{Q}.close_run#ensures[the stop is emitted also when the run's monitors are suspended and the device refuses to unsubscribe an unknown callback]",
            r0[0] == "ok" and r[0] == "ok" and [n for n, d in env.emitted[n0:]] == ["stop"] and not subs and b.run_is_open is False,
            {"replay": "bundler.close_monitors_suspended", "suspended": suspended, "via_epilogue": via_epilogue})


@task("engine.registry", PROP, functions=[f"{RE}._open_run", f"{RE}._close_run"],
      expect=[f"{RE}._close_run#ensures[closes exactly the run of its key, emits its stop, forgets it]"])
def registry(I):
    w = I.w
    env = Env(I)
    install_tracer(I, [])
    re_ = make_re(I, env, scan_id_source=I.get_function(f"{MR}:default_scan_id_source"), md_validator=I.get_function(f"{MR}:_default_md_validator"),
                  md_normalizer=I.get_function(f"{MR}:_default_md_normalizer"))
    ua = call_async(I, I.getattr(re_, "_open_run"), MsgVal("open_run", None, (), {}, "a"))[1]
    ub = call_async(I, I.getattr(re_, "_open_run"), MsgVal("open_run", None, (), {}, "b"))[1]
    n0 = len(env.emitted)
    r = call_async(I, I.getattr(re_, "_close_run"), MsgVal("close_run", None, (), {}, "a"))
    stops = [d for n, d in env.emitted[n0:] if n == "stop"]
    r2 = call_async(I, I.getattr(re_, "_close_run"), MsgVal("close_run", None, (), {}, "a"))
    w.check(f"{RE}._close_run#ensures[closes exactly the run of its key, emits its stop, forgets it]",
            r[0] == "ok" and len(stops) == 1 and stops[0]["run_start"] == ua and ua != ub and set(re_._run_bundlers) == {"b"}
            and re_._run_bundlers["b"].run_is_open is True and r2[0] == "raise" and exc_is(I, r2[1], IMS) and re_._run_start_uids == [ua, ub],
            {"replay": "runkeys.independent"})


@task("engine.epilogue.structure", PROP, functions=[f"{RE}._run"],
      expect=[f"{RE}._run#ensures[epilogue: every run still open is closed, the registry emptied, the state set to idle]"])
def epilogue_structure(I):
    """structural obligation on the finally block of _run (the behavioural proof of the epilogue is the T2 slice, C02)"""
    w = I.w
    m, chain, node = I.P.find_function(f"{RE}._run")
    fin = None
    for t in ast.walk(node):
        if isinstance(t, ast.Try) and t.finalbody and "self._run_bundlers.clear()" in ast.unparse(t):
            fin = t.finalbody
    ok = fin is not None
    if ok:
        src = "\n".join(ast.unparse(s) for s in fin)
        i_loop = src.find("for key, current_run in self._run_bundlers.items()")
        i_open = src.find("if current_run.run_is_open", i_loop)
        i_close = src.find("current_run.close_run(", i_open)
        i_clear = src.find("self._run_bundlers.clear()", i_close)
        i_idle = src.find("self._state = 'idle'", i_clear)
        ok = 0 <= i_loop < i_open < i_close < i_clear < i_idle
    w.check(f"{RE}._run#ensures[epilogue: every run still open is closed, the registry emptied, the state set to idle]", ok)


@task("lemma.stream_shape", PROP, expect=["lemma:C01.each run's stream is start (descriptor|event)* stop with backward references"])
def lemma(I):
    """abstract per-run transition system whose transitions are the step contracts; invariant => property"""
    import z3
    w = I.w
    # state: opened, closed (booleans); nstart, nstop (counts); dangling = number of events whose descriptor was not emitted earlier
    opened, closed = z3.Bools("opened closed")
    ns, nt, dang = z3.Ints("nstart nstop dangling")
    opened2, closed2 = z3.Bools("opened2 closed2")
    ns2, nt2, dang2 = z3.Ints("nstart2 nstop2 dangling2")
    inv = lambda o, c, a, b_, d: z3.And(z3.Implies(c, o), a == z3.If(o, 1, 0), b_ == z3.If(c, 1, 0), d == 0)
    t_open = z3.And(z3.Not(opened), opened2, z3.Not(closed2), ns2 == ns + 1, nt2 == nt, dang2 == dang)
    t_emit = z3.And(opened, z3.Not(closed), opened2 == opened, closed2 == closed, ns2 == ns, nt2 == nt, dang2 == dang)   # descriptor-before-event contract
    t_close = z3.And(opened, z3.Not(closed), opened2, closed2, ns2 == ns, nt2 == nt + 1, dang2 == dang)
    t_close_rejected = z3.And(z3.Or(z3.Not(opened), closed), opened2 == opened, closed2 == closed, ns2 == ns, nt2 == nt, dang2 == dang)
    step = z3.Or(t_open, t_emit, t_close, t_close_rejected)
    init = z3.And(z3.Not(opened), z3.Not(closed), ns == 0, nt == 0, dang == 0)
    idle_means_closed = z3.Implies(opened, closed)          # the epilogue contract: at idle every opened run is closed
    goal = z3.Implies(z3.And(inv(opened, closed, ns, nt, dang), opened, idle_means_closed), z3.And(ns == 1, nt == 1, dang == 0))
    w.check("lemma:C01.each run's stream is start (descriptor|event)* stop with backward references",
            Sym(z3.And(z3.Implies(init, inv(opened, closed, ns, nt, dang)),
                       z3.Implies(z3.And(inv(opened, closed, ns, nt, dang), step), inv(opened2, closed2, ns2, nt2, dang2)), goal)))
