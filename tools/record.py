#!/usr/bin/env python3
"""tools/record.py claim Cxx 'text' 'note'   |   tools/record.py fixed Cxx id commit 'obligation' 'what'   |   tools/record.py known Cxx id 'obligation' 'what'"""
import json, os, sys
R = os.path.dirname(os.path.dirname(os.path.abspath(__file__)))
kind = sys.argv[1]
if kind == "claim":
    p = os.path.join(R, "tools", "claims.json")
    c = json.load(open(p))
    c[sys.argv[2]] = {"text": sys.argv[3], "note": sys.argv[4]}
    json.dump(c, open(p, "w"), indent=1)
else:
    p = os.path.join(R, "known_findings.json")
    k = json.load(open(p))
    if kind == "fixed":
        _, _, prop, fid, commit, obl, what = sys.argv
        e = {"id": fid, "property": prop, "status": "fixed", "commit": commit, "obligation": obl, "what": what,
             "line": f"fixed: property={prop} {commit} {what}"}
    else:
        _, _, prop, fid, obl, what = sys.argv
        e = {"id": fid, "property": prop, "status": "known", "obligation": obl, "what": what}
    k["findings"] = [f for f in k["findings"] if f["id"] != fid] + [e]
    json.dump(k, open(p, "w"), indent=1)
os.system(f"python3 {R}/tools/gen_manifest.py")
