#!/usr/bin/env python3-vt
"""development aid: run the C07 'lifecycle' task for several (messages, environment) combinations in parallel and summarise
which obligations fail, with one witness per (obligation, info-class).
usage: tools/t2_explore.py 'custom,checkpoint|pause,abort' 'custom|suspend' ..."""
import json, os, subprocess, sys, collections
R = os.path.dirname(os.path.dirname(os.path.abspath(__file__)))
sys.path.insert(0, R)

if sys.argv[1] == "worker":
    os.environ["T2_MSGS"], os.environ["T2_ENV"] = sys.argv[2], sys.argv[3]
    os.environ.setdefault("PYVC_PATH_CAP", "2000000")
    import importlib
    from pyvc import runner
    importlib.import_module("contracts.C07")
    r = runner.explore_task("contracts.C07", sys.argv[4] if len(sys.argv) > 4 else "lifecycle")
    fails = collections.OrderedDict()
    counts = collections.Counter()
    for x in r["results"]:
        counts[(x["name"], x["status"] in ("unsat", "trivial"))] += 1
        if x["status"] not in ("unsat", "trivial"):
            info = {k: v for k, v in (x["info"] or {}).items() if k not in ("replay",)}
            key = (x["name"], json.dumps(info, sort_keys=True, default=str))
            if key not in fails or len(x["decisions"]) < len(fails[key]["decisions"]):
                fails[key] = x
    out = {"combo": sys.argv[2] + "|" + sys.argv[3], "paths": r["paths"], "wall": round(r["wall"], 1), "error": r["error"],
           "obligations": sorted({n for n, _ in counts}),
           "fails": [{"name": k[0], "info": json.loads(k[1]), "decisions": v["decisions"]} for k, v in fails.items()]}
    print("JSON:" + json.dumps(out, default=str))
    sys.exit(0)

procs = []
for combo in sys.argv[1:]:
    msgs, env = combo.split("|")
    procs.append((combo, subprocess.Popen([sys.executable, __file__, "worker", msgs, env], stdout=subprocess.PIPE, stderr=subprocess.STDOUT, text=True)))
for combo, p in procs:
    out = p.communicate()[0]
    line = [ln for ln in out.splitlines() if ln.startswith("JSON:")]
    if not line:
        print("====", combo, "NO RESULT\n", out[-2000:])
        continue
    d = json.loads(line[0][5:])
    print(f"==== {combo}: paths={d['paths']} wall={d['wall']}s error={d['error']}  failing classes={len(d['fails'])}")
    for f in d["fails"]:
        print("   FAIL", f["name"].split("#")[-1][:110])
        print("        info:", f["info"])
        print("        decisions:", " ".join(f"{a}={b}" if a != "env" else b for a, b in f["decisions"]))
