#!/usr/bin/env python3
"""tools/try_seed.py <prop> <outdir> <k> [test files...]
Confirms a seeded change in the scratch worktree /tmp/wt/<prop> (demo fails with it / passes without, given tests pass),
then applies it to /repo, runs ./check <prop>, reverts /repo, and stores the seed under /verif/seeded/<prop>-<k>/."""
import json, os, shutil, subprocess, sys
prop, outdir, k = sys.argv[1:4]
tests = sys.argv[4:]
wt = os.environ.get("TRY_SEED_WT", f"/tmp/wt/{prop}")          # scratch worktree of /repo
store_k = os.environ.get("TRY_SEED_K", k)                     # index under which the seed is stored (seeded/<prop>-<store_k>)
R = os.path.dirname(os.path.dirname(os.path.abspath(__file__)))
patch = f"{outdir}/patch_{k}.diff"
demo = f"{outdir}/demo_{k}.py"
env = dict(os.environ, PYTHONPATH=f"{wt}/src")
def sh(cmd, **kw):
    return subprocess.run(cmd, shell=True, capture_output=True, text=True, **kw)
ver = f"{wt}/src/bluesky/_version.py"
if not os.path.exists(ver):
    shutil.copy("/repo/src/bluesky/_version.py", ver) if os.path.exists("/repo/src/bluesky/_version.py") else open(ver, "w").write("__version__ = version = '0+seed'\n__version_tuple__ = version_tuple = (0, 0)\n")
sh(f"git -C {wt} checkout -- .")
r0 = sh(f"/venv/bin/python {demo}", env=env, cwd=wt)
a = sh(f"git -C {wt} apply {patch}")
if a.returncode:
    print("patch does not apply to worktree:", a.stderr); sys.exit(2)
r1 = sh(f"/venv/bin/python {demo}", env=env, cwd=wt)
tr = None
if tests:
    t = sh(f"/venv/bin/python -m pytest -q -p no:cacheprovider -x {' '.join(tests)} 2>&1 | tail -3", env=env, cwd=wt)
    tr = t.stdout.strip().splitlines()[-1] if t.stdout.strip() else t.stderr[-200:]
sh(f"git -C {wt} checkout -- .")
print(f"demo unchanged exit={r0.returncode} changed exit={r1.returncode}; tests: {tr}")
ok_seed = r0.returncode == 0 and r1.returncode == 1
# now the check, against the scratch worktree with the change applied (VERIF_REPO; /repo itself is never touched, so checks running
# in the background are not disturbed)
a = sh(f"git -C {wt} apply {patch}")
if a.returncode:
    print("patch does not apply to worktree:", a.stderr); sys.exit(2)
try:
    c = sh(f"./check {prop}", cwd=R, env=dict(os.environ, VERIF_REPO=wt))
finally:
    sh(f"git -C {wt} checkout -- .")
    # the evidence file written by the seeded run must not be kept: restore the committed one
    sh(f"git -C {R} checkout -- evidence/{prop}.json")
lines = [l for l in c.stdout.splitlines() if l.startswith(("VIOLATION", "ENGINE-ERROR", "UNDECIDED", "obligation failed", prop + ":"))]
print(f"check exit={c.returncode}")
for l in lines[:8]:
    print("   ", l[:300])
d = os.path.join(R, "seeded", f"{prop}-{store_k}")
os.makedirs(d, exist_ok=True)
shutil.copy(patch, os.path.join(d, "patch.diff"))
shutil.copy(demo, os.path.join(d, os.path.basename("demo.py")))
meta = json.load(open(f"{outdir}/meta_{k}.json"))
meta.update({"property": prop, "confirmed_by_me": {"demo_exit_unchanged": r0.returncode, "demo_exit_changed": r1.returncode, "tests": tests, "tests_result": tr, "seed_valid": ok_seed},
             "check_result": {"cmd": f"VERIF_REPO=<scratch worktree with patch.diff applied> ./check {prop}", "exit": c.returncode, "caught": c.returncode == 1, "lines": lines[:6]}})
json.dump(meta, open(os.path.join(d, "meta.json"), "w"), indent=1)
