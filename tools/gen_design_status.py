#!/usr/bin/env python3
"""regenerates the machine-derived tables of DESIGN.md (between the markers <!-- BEGIN:... --> / <!-- END:... -->):
claimed checks, fixes / known findings, seeded changes and which obligation caught each."""
import json, os, re, glob
R = os.path.dirname(os.path.dirname(os.path.abspath(__file__)))
claims = json.load(open(f"{R}/tools/claims.json"))
kf = json.load(open(f"{R}/known_findings.json"))["findings"]
man = json.load(open(f"{R}/MANIFEST.json"))


def ev(p):
    try:
        return json.load(open(f"{R}/evidence/{p}.json"))
    except Exception:
        return None


rows = ["| id | obligations discharged | tasks | paths | known findings | quick wall (s) | functions under contract |", "|---|---|---|---|---|---|---|"]
for c in man["checks"]:
    p = c["property_id"]
    e = ev(p)
    if e is None:
        rows.append(f"| {p} | (no evidence yet) | | | | | |")
        continue
    cov = e["coverage"]
    rows.append(f"| {p} | {cov['discharged']}/{cov['obligations']} | {len(cov['tasks'])} | {cov['paths_explored']} | {len(cov.get('known_findings', []))} | {e['wall_s']} | {len(cov['functions_under_contract'])} |")
checks_tbl = "\n".join(rows)

rows = ["| property | id | status | commit | what failed |", "|---|---|---|---|---|"]
for f in kf:
    rows.append(f"| {f['property']} | {f['id']} | {f['status']} | {f.get('commit', '-')} | {f['what'][:300]} |")
kf_tbl = "\n".join(rows)

rows = ["| seed | valid on the current tree | caught | by (first failing obligation) | needs |", "|---|---|---|---|---|"]
for d in sorted(glob.glob(f"{R}/seeded/*/meta.json")):
    m = json.load(open(d))
    sid = os.path.basename(os.path.dirname(d))
    cr = m.get("check_result", {})
    first = next((l for l in cr.get("lines", []) if l.startswith("obligation failed")), "")
    first = first.replace("obligation failed: ", "")[:170]
    valid = m.get("confirmed_by_me", {}).get("seed_valid")
    rc = m.get("recheck", {})
    if rc and not rc.get("applies", True):
        valid = f"patch no longer applies to {rc.get('repo_head')} (verdict from the tree it was made for)"
    first = first or next((l for l in cr.get("lines", []) if l.startswith("VIOLATION")), "")[:170]
    if m.get("caught_by_other_check"):
        first = f"(not by its own check) by {m['caught_by_other_check']['check']}: {m['caught_by_other_check']['how'][:200]}"
    rows.append(f"| {sid} | {valid} | {cr.get('caught')} | {first} | {str(m.get('needs', ''))[:160]} |")
n_all = len(rows) - 2
n_valid = sum(1 for r in rows[2:] if r.split("|")[2].strip() == "True")
n_caught = sum(1 for r in rows[2:] if r.split("|")[2].strip() == "True" and r.split("|")[3].strip() == "True")
n_other = sum(1 for d in glob.glob(f"{R}/seeded/*/meta.json") if json.load(open(d)).get("caught_by_other_check"))
rows.append("")
rows.append(f"{n_all} seeds; {n_valid} still break their property on the current tree (the others were turned harmless by a later fix or no longer apply); "
            f"{n_caught} of these {n_valid} are reported as VIOLATION by the current check of their property"
            + (f"; the other {n_valid - n_caught} by the check of the property whose carrier they change (see their rows)." if n_valid - n_caught == n_other else
               f"; {n_other} more by the check of another property (see their rows); {n_valid - n_caught - n_other} are missed."))
seed_tbl = "\n".join(rows)

p = f"{R}/DESIGN.md"
s = open(p).read()
for name, body in (("CHECKS", checks_tbl), ("FINDINGS", kf_tbl), ("SEEDS", seed_tbl)):
    pat = re.compile(rf"(<!-- BEGIN:{name} -->\n).*?(<!-- END:{name} -->)", re.S)
    if not pat.search(s):
        print("marker missing:", name)
        continue
    s = pat.sub(lambda m: m.group(1) + body + "\n" + m.group(2), s)
open(p, "w").write(s)
print("DESIGN.md tables regenerated")
