import subprocess, sys, json, glob, os
P="/tmp/rw/C43/src/bluesky/utils/__init__.py"
FIN_OLD='''        self._finalizer = weakref.finalize(self, finalize, self._file, self._cache, PersistentDict._dump)'''
MUTS = {
 # --- behaviour-changing
 "M1-popitem-forgets-disk": [('''        key, value = self._cache.popitem()
        del self._func[key]
        return key, value''','''        key, value = self._cache.popitem()
        return key, value''')],
 "M2-finalizer-gets-copy": [(FIN_OLD, FIN_OLD.replace("self._cache,", "dict(self._cache),"))],
 "M3-flush-only-missing-keys": [('''        for k, v in self.items():
            self._func[k] = v''','''        for k, v in self.items():
            if k not in self._file:
                self._func[k] = v''')],
 "M4-setitem-skips-same-object": [('''    def __setitem__(self, key, value):
        self._cache[key] = value''','''    def __setitem__(self, key, value):
        if self._cache.get(key) is value:
            return
        self._cache[key] = value''')],
 "M5-clear-override-rebinds": [('''    def reload(self):''','''    def clear(self):
        for key in list(self._cache):
            del self._func[key]
        self._cache = {}

    def reload(self):''')],
 "M6-finalize-skips-existing": [('''            zfile.update((k, dump(v)) for k, v in cache.items())''','''            zfile.update((k, dump(v)) for k, v in cache.items() if k not in zfile)''')],
 "M7-pop-override-keeps-file": [('''    def reload(self):''','''    def pop(self, key, *default):
        return self._cache.pop(key, *default)

    def reload(self):''')],
 "M8-finalizer-before-reload-in-init": [('''        self._cache = {}
        self.reload()
''','''        self._cache = {}
'''),(FIN_OLD, FIN_OLD+"\n        self.reload()")],
 "M9-delitem-cache-only-when-present": [('''        del self._cache[key]
        del self._func[key]''','''        del self._cache[key]
        if key in self._cache:
            del self._func[key]''')],
 "M10-flush-detaches-finalizer": [('''        for k, v in self.items():
            self._func[k] = v''','''        for k, v in self.items():
            self._func[k] = v
        self._finalizer.detach()''')],
 "M14-setdefault-override-cache-only": [("""    def reload(self):""","""    def setdefault(self, key, default=None):
        return self._cache.setdefault(key, default)

    def reload(self):""")],
 "M18-finalizer-only-when-nonempty": [(FIN_OLD, "        if self._cache:\n    "+FIN_OLD)],
 "M19-iter-len-from-disk-harmless": [("""        yield from self._cache""","""        yield from self._file"""),("""        return len(self._cache)""","""        return len(self._file)""")],
 # --- harmless
 "H1-flush-via-file-update": [('''        for k, v in self.items():
            self._func[k] = v''','''        self._file.update((k, self._dump(v)) for k, v in self._cache.items())''')],
 "H2-reload-in-place-plus-seed2": [('''        self._cache = dict(self._func.items())''','''        fresh = dict(self._func.items())
        self._cache.clear()
        self._cache.update(fresh)'''),('''        for k, v in self.items():
            self._func[k] = v''','''        for k, v in self.items():
            self._func[k] = v
        self.reload()''')],
 "H3-swap-write-order": [('''        self._cache[key] = value
        self._func[key] = value''','''        self._func[key] = value
        self._cache[key] = value'''),('''        del self._cache[key]
        del self._func[key]''','''        del self._func[key]
        del self._cache[key]''')],
 "H4-finalize-through-func": [('''        def finalize(zfile, cache, dump):
            zfile.update((k, dump(v)) for k, v in cache.items())''','''        def finalize(func, cache):
            func.update(cache)'''),(FIN_OLD,'''        self._finalizer = weakref.finalize(self, finalize, self._func, self._cache)''')],
 "H5-reload-rearms-finalizer": [('''        self._cache = dict(self._func.items())''','''        self._cache = dict(self._func.items())
        fin = getattr(self, "_finalizer", None)
        if fin is not None:
            _, func, args, _ = fin.detach()
            import weakref

            self._finalizer = weakref.finalize(self, func, args[0], self._cache, args[2])''')],
}
names = sys.argv[1:] or list(MUTS)
for name in names:
    subprocess.run("git -C /tmp/rw/C43 checkout -- .", shell=True)
    s = open(P).read()
    for old, new in MUTS[name]:
        assert s.count(old) == 1, (name, old)
        s = s.replace(old, new)
    open(P, "w").write(s)
    r = subprocess.run("./check C43", shell=True, cwd="/tmp/vw/C43", env=dict(os.environ, VERIF_REPO="/tmp/rw/C43"), capture_output=True, text=True)
    print(f"=== {name}: exit={r.returncode}")
    for l in r.stdout.splitlines():
        if l.startswith(("obligation failed", "ENGINE", "UNDECIDED", "NOTE", "C43:")):
            print("   ", l[:230])
    for f in sorted(glob.glob("/tmp/vw/C43/replays/C43/*.json")):
        a = json.load(open(f))
        if a["obligation"].startswith("known-"):
            continue
        det = [l for l in a.get("replay_output", "").splitlines() if l.startswith("detail")]
        print("    replay", a.get("replay_verdict"), "|", a["obligation"][29:70], "|", (det[0][:330] if det else a.get("replay_output","")[-300:]))
    subprocess.run("git -C /tmp/rw/C43 checkout -- .", shell=True)
