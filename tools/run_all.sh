#!/bin/sh
# runs every claimed check (quick tier) on the current tree, 3 at a time; prints one summary line per property
cd "$(dirname "$0")/.."
python3 -c "import json; print(' '.join(c['property_id'] for c in json.load(open('MANIFEST.json'))['checks']))" | tr ' ' '\n' | xargs -P 3 -I{} sh -c './check {} 2>&1 | tail -1 | cut -c1-120'
