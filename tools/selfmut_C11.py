"""Self-mutation set used when strengthening C11 (suspension protocol).

usage:  python tools/selfmut_C11.py <scratch bluesky worktree> <mutant> [unchanged|fix]
        then  VERIF_REPO=<scratch worktree> ./check C11 [--only <task prefix>]
`fix` first applies patches/C11-overlapping-suspension-rewait.diff (the engine fix the T2 'overlapping' tasks need to pass).
Expected (obligation that reports it, all with a confirming native replay):
  S-a  settle time ignored (call_later(0, ...))                        -> __set_event#ensures[an event is set only by a timer armed with the settle time]
  S-b  post_plan=self._pre_plan in the request                         -> __call__#ensures[a trip that makes an event requests ...]
  S-c  __make_event no longer cancels the late event creation          -> invariant[the held event is unreleased and its wait was handed to the engine] (+ inv3 / inv4)
  S-g  local() reads self._ev when it runs (already forgotten)         -> __set_event#ensures[... exactly the event that was held is set, once]
  S-h  release only "if not self._tripped"                             -> __set_event#ensures[... exactly the event that was held is set, once]
  S-i  suspension requested although the engine is not running         -> __call__#ensures[a trip that makes an event requests, iff the engine is running ...]
  E-d  pre-plan moved behind the wait                                  -> _start_suspender#ensures[the suspender's pre-plan has run to its end when the engine starts to wait]
  E-i  pre / post plan swapped in request_suspend                      -> the same + #ensures[while suspended only the suspender's pre-plan runs]
  E-j  interruption recorded as 'suspended' whatever the justification -> _start_suspender#ensures[the interruption is recorded ...]
  harmless, NOT reported: S-j, H-1, H-2, H-3 (suspenders.py), H-4, H-5 (run_engine.py)"""
import os
import subprocess
import sys

PATCH = os.path.join(os.path.dirname(os.path.dirname(os.path.abspath(__file__))), "patches", "C11-overlapping-suspension-rewait.diff")
tree, name = sys.argv[1], sys.argv[2]
base = sys.argv[3] if len(sys.argv) > 3 else "unchanged"
subprocess.check_call(["git", "-C", tree, "checkout", "-q", "--", "."])
if base == "fix":
    subprocess.check_call(["git", "-C", tree, "apply", PATCH])
SUS, RUN = tree + "/src/bluesky/suspenders.py", tree + "/src/bluesky/run_engine.py"
def rep(path, a, b, count=1):
    s = open(path).read()
    assert s.count(a) == count, (name, s.count(a))
    open(path, "w").write(s.replace(a, b))
M = {
 # ---- suspenders.py
 "S-a": lambda: rep(SUS, "loop.call_later(sleep, ev.set)", "loop.call_later(0, ev.set)"),
 "S-b": lambda: rep(SUS, "post_plan=self._post_plan,\n                        justification", "post_plan=self._pre_plan,\n                        justification"),
 "S-c": lambda: rep(SUS, "            if not th_ev.wait(0.1):\n                h.cancel()\n", "            th_ev.wait(0.1)\n"),
 "S-g": lambda: rep(SUS, "loop.call_later(sleep, ev.set)", "loop.call_later(sleep, self._ev.set)"),
 "S-h": lambda: (rep(SUS, "loop.call_later(sleep, ev.set)", "loop.call_later(sleep, release)"),
                 rep(SUS, "            def local():\n                ts =", "            def release():\n                # the signal went bad again during the settle time: stay suspended\n                if not self._tripped:\n                    ev.set()\n\n            def local():\n                ts =")),
 "S-i": lambda: rep(SUS, "                    if self.RE.state.is_running:\n                        loop.call_soon_threadsafe(cb)", "                    loop.call_soon_threadsafe(cb)"),
 "S-j": lambda: rep(SUS, "            if self.RE is not None:\n                self.__set_event(self.RE._loop)\n            self.RE = None\n            self._tripped = False",
                         "            if self.RE is not None and self._tripped:\n                self.__set_event(self.RE._loop)\n                self._tripped = False\n            self.RE = None"),
 # harmless
 "H-1": lambda: rep(SUS, "            if self._should_suspend(value):\n                self._tripped = True\n                # this does dirty things with internal state\n                if self._ev is None and self.RE is not None:",
                         "            if self._should_suspend(value):\n                was_tripped = self._tripped\n                self._tripped = True\n                # this does dirty things with internal state\n                if (not was_tripped or self._ev is None) and self._ev is None and self.RE is not None:"),
 "H-2": lambda: rep(SUS, "                self.__set_event(loop)\n                self._tripped = False", "                self._tripped = False\n                self.__set_event(loop)"),
 "H-3": lambda: (rep(SUS, "            ev = self._ev\n            sleep = self._sleep\n", "            held = self._ev\n            settle = self._sleep\n"),
                 rep(SUS, "loop.call_later(sleep, ev.set)", "loop.call_later(settle, held.set)"),
                 rep(SUS, "timedelta(seconds=sleep)", "timedelta(seconds=settle)"),
                 rep(SUS, "Will sleep for {sleep} seconds", "Will sleep for {settle} seconds")),
 # ---- run_engine.py
 "E-d": lambda: (rep(RUN, "            # if there is a pre plan add on top of the wait\n            if pre_plan is not None:\n                yield from ensure_generator(pre_plan)\n", ""),
                 rep(RUN, "            # do the work we need to do to resume\n", "            if pre_plan is not None:\n                yield from ensure_generator(pre_plan)\n            # do the work we need to do to resume\n")),
 "E-i": lambda: rep(RUN, "self.loop.create_task, _request_suspend(pre_plan, post_plan, justification))", "self.loop.create_task, _request_suspend(post_plan, pre_plan, justification))"),
 "E-j": lambda: rep(RUN, "current_run.record_interruption(justification if justification is not None else \"suspended\")", "current_run.record_interruption(\"suspended\")"),
 # harmless: post-plan hoisted in front of the engine's own resume bookkeeping (still after the release)
 "H-4": lambda: (rep(RUN, "            # if there is a post plan, run it\n            if post_plan is not None:\n                yield from ensure_generator(post_plan)\n", ""),
                 rep(RUN, "            # do the work we need to do to resume\n", "            if post_plan is not None:\n                yield from ensure_generator(post_plan)\n            # do the work we need to do to resume\n")),
 "H-5": lambda: rep(RUN, "        rewind_plan = self._rewind()\n        was_rewindable = self.rewindable\n", "        was_rewindable = self.rewindable\n        rewind_plan = self._rewind()\n"),
 "none": lambda: None,
}
M[name]()
print(subprocess.check_output(["git", "-C", tree, "diff", "--stat"]).decode())
