#!/usr/bin/env python3
"""tools/recheck_seeds.py <prop> [<prop> ...]
Re-validates every stored seed of the given properties against the CURRENT /repo HEAD and the CURRENT checks:
for seeded/<prop>-<k>/ it makes (or reuses) the scratch worktree /tmp/wt/rs-<prop> at /repo HEAD, runs demo.py without and with
patch.diff, runs ./check <prop> with VERIF_REPO=<worktree with the patch>, and rewrites confirmed_by_me / check_result in meta.json.
/repo itself is never touched; the committed evidence file of the property is restored afterwards."""
import glob, json, os, subprocess, sys
R = os.path.dirname(os.path.dirname(os.path.abspath(__file__)))


def sh(cmd, **kw):
    return subprocess.run(cmd, shell=True, capture_output=True, text=True, **kw)


head = sh("git -C /repo rev-parse --short HEAD").stdout.strip()
for prop in sys.argv[1:]:
    wt = f"/tmp/wt/rs-{prop}"
    if not os.path.isdir(wt):
        sh(f"git -C /repo worktree add --detach {wt} {head}")
    sh(f"git -C {wt} checkout -q --detach {head}; git -C {wt} checkout -- .")
    ver = f"{wt}/src/bluesky/_version.py"
    if not os.path.exists(ver):
        open(ver, "w").write("__version__ = version = '0+seed'\n__version_tuple__ = version_tuple = (0, 0)\n")
    env = dict(os.environ, PYTHONPATH=f"{wt}/src")
    for d in sorted(glob.glob(os.path.join(R, "seeded", f"{prop}-*"))):
        sid = os.path.basename(d)
        meta = json.load(open(os.path.join(d, "meta.json")))
        r0 = sh(f"timeout 600 /venv/bin/python {d}/demo.py", env=env, cwd=wt)
        a = sh(f"git -C {wt} apply {d}/patch.diff")
        if a.returncode:
            a = sh(f"git -C {wt} apply -3 {d}/patch.diff")
        if a.returncode:
            meta["recheck"] = {"repo_head": head, "applies": False, "note": "patch.diff no longer applies to the current tree: " + a.stderr.strip()[:200]}
            json.dump(meta, open(os.path.join(d, "meta.json"), "w"), indent=1)
            print(f"{sid}: patch does not apply to {head}")
            sh(f"git -C {wt} checkout -- .; git -C {wt} reset -q --hard {head}")
            continue
        r1 = sh(f"timeout 600 /venv/bin/python {d}/demo.py", env=env, cwd=wt)
        try:
            c = sh(f"timeout 3000 ./check {prop}", cwd=R, env=dict(os.environ, VERIF_REPO=wt))
        finally:
            sh(f"git -C {wt} checkout -- .; git -C {wt} reset -q --hard {head}")
            sh(f"git -C {R} checkout -- evidence/{prop}.json")
        lines = [l for l in c.stdout.splitlines() if l.startswith(("VIOLATION", "ENGINE-ERROR", "UNDECIDED", "obligation failed", prop + ":"))]
        valid = r0.returncode == 0 and r1.returncode == 1
        meta.setdefault("confirmed_by_me", {}).update({"demo_exit_unchanged": r0.returncode, "demo_exit_changed": r1.returncode, "seed_valid": valid})
        meta["check_result"] = {"cmd": f"VERIF_REPO=<scratch worktree of /repo @ {head} with patch.diff applied> ./check {prop}", "exit": c.returncode,
                                "caught": c.returncode == 1, "lines": lines[:6]}
        meta["recheck"] = {"repo_head": head, "applies": True}
        json.dump(meta, open(os.path.join(d, "meta.json"), "w"), indent=1)
        print(f"{sid}: demo {r0.returncode}/{r1.returncode} valid={valid} check exit={c.returncode}", flush=True)
    sh(f"git -C /repo worktree remove --force {wt}")
