"""self-mutation of the C33 carriers: usage selfmut_C33.py <mutant> [task]; copies $SCRATCH_REPO/src (an unchanged scratch worktree of /repo) and this
framework under /tmp/rw/x/muts/<mutant>, applies the textual mutation to callbacks/zmq.py and runs ./check C33 there.
M*/S* must exit 1 (replay confirmed), H* must exit 0."""
import os, shutil, subprocess, sys
name = sys.argv[1]; only = (" --only " + sys.argv[2]) if len(sys.argv) > 2 else ""; suffix = ("_" + sys.argv[2]) if len(sys.argv) > 2 else ""
M = {
 "M1_rsplit": [('message.split(b" ", 2)', 'message.rsplit(b" ", 2)')],
 "M2_split_all": [('message.split(b" ", 2)', 'message.split(b" ")')],
 "M3_contains": [('prefix == our_prefix:', 'our_prefix in prefix:')],
 "M4_rev_startswith": [('prefix == our_prefix:', 'our_prefix.startswith(prefix):')],
 "M5_break": [('''                        "Dropping message on the floor and continuing. "
                        f"\\n\\n{e}"
                    )
                    continue
            if (not''', '''                        "Dropping message on the floor and continuing. "
                        f"\\n\\n{e}"
                    )
                    break
            if (not''')],
 "M11_keyerror_strict_reraise": [('''                except KeyError as e:
                    if self._strict:
                        raise Bluesky0MQDecodeError from e''', '''                except KeyError as e:
                    if self._strict:
                        raise''')],
 "M16_pub_skips_empty_prefix": [('message = b" ".join([self._prefix, name.encode(), self._serializer(doc)])',
                                 'parts = [name.encode(), self._serializer(doc)]\n        if self._prefix:\n            parts.insert(0, self._prefix)\n        message = b" ".join(parts)')],
 "M18_unprefixed_to_all": [('if (not our_prefix) or prefix == our_prefix:', 'if (not our_prefix) or (not prefix) or prefix == our_prefix:')],
 "M19_match_cached": [('        while True:\n            message = await self._socket.recv()', '        match = None\n        while True:\n            message = await self._socket.recv()'),
                      ('            if (not our_prefix) or prefix == our_prefix:', '            if match is None:\n                match = (not our_prefix) or prefix == our_prefix\n            if match:')],
 "M20_strict_inverted_split": [('''            except ValueError as e:
                if self._strict:''', '''            except ValueError as e:
                if not self._strict:''')],
 "M21_snip_unbound": [('''                        if len(doc) > 1024:
                            msg_doc = doc[:1024] + b"--SNIPPED--"
                        else:
                            msg_doc = doc
''', '''                        if len(doc) > 1024:
                            msg_doc = doc[:1024] + b"--SNIPPED--"
''')],
 "M22_pub_serializes_original_name": [('self._serializer(doc)])', 'self._serializer(name)])')],
 "M23_deser_before_filter_swallow": [('''                except Exception as e:
                    if self._strict:
                        raise Bluesky0MQDecodeError from e
                    else:
                        if len(doc)''', '''                except Exception as e:
                    if self._strict and False:
                        raise Bluesky0MQDecodeError from e
                    else:
                        if len(doc)''')],
 "M24_ctor_ignores_strict": [('self._strict = strict', 'self._strict = False')],
 "M25_ctor_default_deser": [('self._deserializer = deserializer', 'self._deserializer = pickle.loads')],
 "S1": [('if (not our_prefix) or prefix == our_prefix:', 'if prefix.startswith(our_prefix):')],
 "S2": [('except Exception as e:', 'except (pickle.UnpicklingError, ValueError, TypeError) as e:')],
 "H5_decode_after_filter": "special",
 "H6_direct_process": [('self.loop.call_soon(self.process, doc_name, doc)', 'self.process(doc_name, doc)')],
 "M26_mixed_routes": [('self.loop.call_soon(self.process, doc_name, doc)', 'if name == "stop":\n                    self.process(doc_name, doc)\n                else:\n                    self.loop.call_soon(self.process, doc_name, doc)')],
 "H1_no_deepcopy": [('        doc = copy.deepcopy(doc)\n', '')],
 "H2_concat": [('message = b" ".join([self._prefix, name.encode(), self._serializer(doc)])', 'message = self._prefix + b" " + name.encode() + b" " + self._serializer(doc)')],
 "H3_rename_reorder": [('our_prefix = self._prefix  # local var to save an attribute lookup', 'mine = self._prefix'), ('our_prefix', 'mine'),
                       ('if (not mine) or prefix == mine:', 'if prefix == mine or not mine:')],
 "H4_partition": [('''                prefix, name, doc = message.split(b" ", 2)''', '''                prefix, name, doc = message.split(b" ", maxsplit=2)''')],
}
W = os.path.dirname(os.path.dirname(os.path.abspath(__file__)))
root = f"/tmp/rw/x/muts/{name}{suffix}"
shutil.rmtree(root, ignore_errors=True)
os.makedirs(root)
shutil.copytree(os.environ.get("SCRATCH_REPO", "/tmp/rw/C33") + "/src", root + "/repo/src")
subprocess.run(f"cd {W} && mkdir -p {root}/vw && cp -r check contracts pyvc replay known_findings.json properties.jsonl tools {root}/vw/", shell=True, check=True)
p = root + "/repo/src/bluesky/callbacks/zmq.py"
s = open(p).read()
if M[name] == "special":
    a = s.index("            try:\n                name = name.decode()")
    b = s.index("            if (not our_prefix) or prefix == our_prefix:\n")
    block = s[a:b]
    ifline = "            if (not our_prefix) or prefix == our_prefix:\n"
    s = s[:a] + ifline + "".join("    " + l + "\n" for l in block.splitlines()) + s[b + len(ifline):]
    M[name] = []
for old, new in M[name]:
    if old not in s:
        print("PATTERN NOT FOUND", name, old[:50]); sys.exit(9)
    if name.startswith("H3") and old == "our_prefix":
        s = s.replace(old, new)
    else:
        s = s.replace(old, new, 1)
open(p, "w").write(s)
r = subprocess.run(f"cd {root}/vw && VERIF_REPO={root}/repo ./check C33{only}", shell=True, capture_output=True, text=True)
lines = [l[:330] for l in (r.stdout + r.stderr).splitlines()]
open(root + "/log", "w").write("\n".join(lines))
print("==", name, "exit", r.returncode)
for l in lines:
    if l.startswith(("obligation failed", "ENGINE", "UNDECIDED", "C33:")) or "no-failing" in l:
        print("  ", l[:300])
