"""self-mutation of the C40 carriers: usage selfmut_C40.py <mutant|all> ; copies $SCRATCH_REPO/src (an unchanged scratch worktree of /repo, default
/tmp/rw/C40) and this framework under /tmp/rw/x/muts/C40_<mutant>, applies the textual mutation and runs ./check C40 there.
S* / M* must exit 1 (every VIOLATION line without 'no-failing-input-found', except the structural M15), H* must exit 0."""
import os, shutil, subprocess, sys
RE, BU = "run_engine.py", "bundlers.py"
REC_RESUME = '''        for current_run in self._run_bundlers.values():
            current_run.record_interruption("resume")
'''
REC_PAUSE = '''        for current_run in self._run_bundlers.values():
            current_run.record_interruption("pause")
'''
M = {
 # the seeded changes (seeded/C40-1 .. -4, -3 and -4 ported to the current tree)
 "S1_rewind_kept_from_copy": [(BU, "kept = {k: v for k, v in self._sequence_counters.items() if k in self._unreplayed_streams}",
                               "kept = {k: self._sequence_counters[k] for k in self._unreplayed_streams & self._sequence_counters_copy.keys()}")],
 "S2_describe_collect_rebinds": [(BU, '''            ):
                self._unreplayed_streams.add(stream_name)
                await self._prepare_stream(stream_name, {collect_object: stream_data_keys})''', '''            ):
                await self._prepare_stream(stream_name, {collect_object: stream_data_keys})'''),
                                 (BU, "        for stream_name, stream_data_keys in describe_collect_items:\n            if stream_name not in self._descriptor_objs or (",
                                  "        self._unreplayed_streams = {stream_name for stream_name, _ in describe_collect_items}\n"
                                  "        for stream_name, stream_data_keys in describe_collect_items:\n            if stream_name not in self._descriptor_objs or (")],
 "S3_pause_recorded_at_request": [(RE, '        self._state = "pausing"\n' + REC_PAUSE, '        self._state = "pausing"\n'),
                                  (RE, "        if defer:\n            self._deferred_pause_requested = True", REC_PAUSE + "\n        if defer:\n            self._deferred_pause_requested = True")],
 "S4_suspension_recorded_at_request": [(RE, '''                self._state = "suspending"
''', '''                self._state = "suspending"
                for current_run in self._run_bundlers.values():
                    current_run.record_interruption(justification if justification is not None else "suspended")
'''), (RE, '            current_run.record_interruption(justification if justification is not None else "suspended")\n            # Monitors', "            # Monitors")],
 # further changes in the same spirit
 "M2_resume_recorded_in_rewind": [(RE, REC_RESUME, ""), (RE, "            for current_run in self._run_bundlers.values():\n                current_run.rewind()\n",
                                   '            for current_run in self._run_bundlers.values():\n                current_run.record_interruption("resume")\n                current_run.rewind()\n')],
 "M3_deferred_pause_unrecorded": [(RE, '        self._deferred_pause_requested = False\n        self._interrupted = True\n        self._state = "pausing"\n' + REC_PAUSE,
                                   '        was_deferred = self._deferred_pause_requested\n        self._deferred_pause_requested = False\n        self._interrupted = True\n'
                                   '        self._state = "pausing"\n        if not was_deferred:\n            for current_run in self._run_bundlers.values():\n'
                                   '                current_run.record_interruption("pause")\n')],
 "M7_resume_recorded_at_wakeup": [(RE, REC_RESUME, ""), (RE, "                    for current_run in self._run_bundlers.values():\n                        await current_run.restore_monitors()\n                    if self._state",
                                   '                    for current_run in self._run_bundlers.values():\n                        current_run.record_interruption("resume")\n'
                                   "                        await current_run.restore_monitors()\n                    if self._state")],
 "M9_rewind_keeps_checkpoint_value": [(BU, "kept = {k: v for k, v in self._sequence_counters.items() if k in self._unreplayed_streams}",
                                       "kept = {k: self._sequence_counters_copy.get(k, v) for k, v in self._sequence_counters.items() if k in self._unreplayed_streams}")],
 "M10_no_record_while_bundling": [(BU, "        if self._interruptions_desc_uid is not None:\n            # We are inside", "        if self._interruptions_desc_uid is not None and not self.bundling:\n            # We are inside")],
 "M14_resume_only_in_last_run": [(RE, REC_RESUME, '        if self._run_bundlers:\n            list(self._run_bundlers.values())[-1].record_interruption("resume")\n')],
 "M15_collect_rebinds_registry": [(BU, "        else:\n            # Since there are no events or event_pages incrementing the sequence counter, we do it ourselves.\n            self._unreplayed_streams.add(stream_name)\n",
                                   "        else:\n            # Since there are no events or event_pages incrementing the sequence counter, we do it ourselves.\n            self._unreplayed_streams = {stream_name}\n")],
 "M16_only_default_run_records": [(RE, "            validated,\n            self.record_interruptions,\n", "            validated,\n            self.record_interruptions and run_key is None,\n")],
 "M17_justification_dropped": [(RE, 'current_run.record_interruption(justification if justification is not None else "suspended")', 'current_run.record_interruption("suspended")')],
 "M18_refused_pause_recorded": [(RE, '        self._state = "pausing"\n' + REC_PAUSE, '        self._state = "pausing"\n'),
                                (RE, "        if not self.state.can_pause:\n            raise TransitionError(f\"Run Engine is in '{self.state}' state and can not be paused.\")\n",
                                 "        if not defer:\n            for current_run in self._run_bundlers.values():\n                current_run.record_interruption(\"pause\")\n"
                                 "        if not self.state.can_pause:\n            raise TransitionError(f\"Run Engine is in '{self.state}' state and can not be paused.\")\n")],
 # harmless refactorings
 "H1_helper_method": [(RE, REC_RESUME, '        self._record_interruption("resume")\n'), (RE, REC_PAUSE, '        self._record_interruption("pause")\n'),
                      (RE, "    def _cancel_run_task(self):", "    def _record_interruption(self, content):\n        for bundler in list(self._run_bundlers.values()):\n"
                                                              "            bundler.record_interruption(content)\n\n    def _cancel_run_task(self):")],
 "H2_reordered": [(RE, '        self._state = "pausing"\n' + REC_PAUSE, REC_PAUSE + '        self._state = "pausing"\n'),
                  (RE, REC_RESUME + "        new_plan = self._rewind()\n", "        new_plan = self._rewind()\n" + REC_RESUME)],
 "H3_two_loops": [(RE, '''        for current_run in self._run_bundlers.values():
            current_run.record_interruption(justification if justification is not None else "suspended")
            # Monitors must not report while the plan is suspended; `_resume` re-instates them.
            await current_run.suspend_monitors()
''', '''        content = "suspended" if justification is None else justification
        open_runs = list(self._run_bundlers.values())
        for bundler in open_runs:
            bundler.record_interruption(content)
        for bundler in open_runs:
            # Monitors must not report while the plan is suspended; `_resume` re-instates them.
            await bundler.suspend_monitors()
''')],
}
W = os.path.dirname(os.path.dirname(os.path.abspath(__file__)))


def run(name):
    root = f"/tmp/rw/x/muts/C40_{name}"
    shutil.rmtree(root, ignore_errors=True)
    os.makedirs(root)
    shutil.copytree(os.environ.get("SCRATCH_REPO", "/tmp/rw/C40") + "/src", root + "/repo/src")
    subprocess.run(f"cd {W} && mkdir -p {root}/vw && cp -r check contracts pyvc replay known_findings.json properties.jsonl tools {root}/vw/", shell=True, check=True)
    for fn, old, new in M[name]:
        p = f"{root}/repo/src/bluesky/{fn}"
        s = open(p).read()
        if s.count(old) != 1:
            print("PATTERN NOT FOUND (or not unique)", name, old[:60])
            return 9
        open(p, "w").write(s.replace(old, new, 1))
    r = subprocess.run(f"cd {root}/vw && VERIF_REPO={root}/repo ./check C40", shell=True, capture_output=True, text=True)
    lines = [l[:330] for l in (r.stdout + r.stderr).splitlines()]
    open(root + "/log", "w").write("\n".join(lines))
    want = 0 if name.startswith("H") else 1
    print("==", name, "exit", r.returncode, "OK" if r.returncode == want else "UNEXPECTED")
    for l in lines:
        if l.startswith(("obligation failed", "ENGINE", "UNDECIDED", "C40:")) or "no-failing" in l:
            print("  ", l[:300])
    return r.returncode


if __name__ == "__main__":
    for nm in (list(M) if sys.argv[1] == "all" else sys.argv[1:]):
        run(nm)
