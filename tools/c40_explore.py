#!/usr/bin/env python3-vt
"""development aid for C40: run the 'interruptions' T2 task for scenarios given on the command line (python literals
"('msgs', 'env', {opts})"; none given: the scenarios of contracts/C40.py), in parallel, against VERIF_REPO (default /repo), and
summarise paths / wall clock / failing obligations with the shortest witness.  No evidence is written, no native replay is run.
usage: [VERIF_REPO=/tmp/rw/C40] tools/c40_explore.py "('open_run,checkpoint', 'pause', {'max_requests': 1})" ..."""
import ast, json, os, subprocess, sys, types
R = os.path.dirname(os.path.dirname(os.path.abspath(__file__)))
sys.path.insert(0, R)

if sys.argv[1:2] == ["worker"]:
    msgs, env, opts = ast.literal_eval(sys.argv[2])
    from pyvc import runner
    from contracts import t2
    from contracts.run_mon5 import c40_checks
    mod = types.ModuleType("contracts._c40x")
    mod.PROP = "C40X"
    sys.modules["contracts._c40x"] = mod
    t2.t2_tasks("C40X", "x", [(msgs, env, opts)], [c40_checks])
    r = runner.explore_task("contracts._c40x", runner.REGISTRY["C40X"][0].name)
    fails = {}
    for x in r["results"]:
        if x["status"] not in ("unsat", "trivial"):
            if x["name"] not in fails or len(x["decisions"]) < len(fails[x["name"]]["decisions"]):
                fails[x["name"]] = x
    print("JSON:" + json.dumps({"paths": r["paths"], "wall": round(r["wall"], 1), "error": r["error"],
                                "fails": [{"name": k, "runs": (v["info"] or {}).get("runs"), "decisions": v["decisions"]} for k, v in fails.items()]}, default=str))
    sys.exit(0)

scn = sys.argv[1:]
if not scn:
    from contracts import C40
    scn = [repr(s[:3]) for s in C40.T2_SCENARIOS]
procs = [(s, subprocess.Popen([sys.executable, __file__, "worker", s], stdout=subprocess.PIPE, stderr=subprocess.STDOUT, text=True)) for s in scn]
for s, p in procs:
    out = p.communicate()[0]
    line = [ln for ln in out.splitlines() if ln.startswith("JSON:")]
    if not line:
        print("====", s, "NO RESULT\n", out[-2000:])
        continue
    d = json.loads(line[0][5:])
    print(f"==== {s}: paths={d['paths']} wall={d['wall']}s error={d['error']} failing={len(d['fails'])}")
    for f in d["fails"]:
        print("   FAIL", f["name"].split("#")[-1][:100])
        print("        ", f["runs"])
        print("        ", " ".join(f"{a}={b}" if a != "env" else b for a, b in f["decisions"]))
