import subprocess, sys, shutil, os
SRC = "/tmp/rw/C29/src/bluesky/plans.py"
DST = "/tmp/rw/C29m/src/bluesky/plans.py"
MUTS = {
 "M1-guard-le": ("        while next_pos * direction_sign < stop * direction_sign:", "        while next_pos * direction_sign <= stop * direction_sign:"),
 "M2-backstep-twice": ("                next_pos -= step\n", "                next_pos -= 2 * step\n"),
 "M3-first-no-advance": ("                past_I = cur_I\n                next_pos += step * direction_sign\n                continue", "                past_I = cur_I\n                continue"),
 "M4-centroid-unweighted": ("            sum_xI += position * cur_I", "            sum_xI += position"),
 "M5-range-grows": ("                new_scan_range = (stop - start) / step_factor", "                new_scan_range = (stop - start) * step_factor"),
 "M6-no-sf-check": ("    if step_factor <= 1.0:\n        raise ValueError(\"step_factor must be greater than 1.0\")\n", ""),
 "M7-min-step-zero": ("    if not 0 < min_step < max_step:", "    if not 0 <= min_step < max_step:"),
 "M8-tune-overshoot": ("        while abs(step) >= min_step and low_limit <= next_pos <= high_limit:", "        while abs(step) >= min_step and low_limit <= next_pos <= high_limit + abs(step):"),
 "M8b-high-limit": ("    high_limit = max(start, stop)\n", "    high_limit = max(start, stop) + min_step\n"),
 "M9-direction": ("            direction_sign = -1", "            direction_sign = 1"),
 "M10-no-zero-guard": ("                if sum_I == 0:\n                    return\n", ""),
 "H4-reorder-tune": ("            sum_I += cur_I\n            position = ret[motor_name][\"value\"]\n", "            position = ret[motor_name][\"value\"]\n            sum_I += cur_I\n"),
 "H1-rename-temp": ("new_step", "nstep"),
 "H2-reorder-init": ("        past_I = None\n        cur_I = None\n", "        cur_I = None\n        past_I = None\n"),
 "H3-rename-tune-temp": ("new_scan_range", "nsr"),
}
which = sys.argv[1:] or list(MUTS)
for name in which:
    a, b = MUTS[name]
    s = open(SRC).read()
    assert a in s, name
    open(DST, "w").write(s.replace(a, b))
    p = subprocess.run(["./check", "C29"], cwd="/tmp/vw/C29", env={**os.environ, "VERIF_REPO": "/tmp/rw/C29m"}, capture_output=True, text=True)
    lines = [l[:260] for l in p.stdout.splitlines() if l.startswith(("obligation failed", "VIOLATION", "ENGINE", "UNDECIDED", "C29:"))]
    print("=====", name, "exit", p.returncode)
    print("\n".join(lines))
    # replay verdicts
    import glob, json
    for f in glob.glob("/tmp/vw/C29/replays/C29/*.json"):
        a_ = json.load(open(f))
        print("   replay", a_.get("replay_verdict"), "|", a_["obligation"][:90], "|", (a_.get("replay_output") or "").split("detail:")[-1][:300].replace("\n", " "))
    sys.stdout.flush()
shutil.copy(SRC, DST)
