#!/usr/bin/env python3
"""Self-mutation run for C25 (BUILDER_BRIEF 'Rules of the road'): applies each small edit of the carrier functions to a scratch
git worktree of /repo (never to /repo), runs `VERIF_REPO=<scratch> ./check C25 --only <tasks>` and prints which obligation
caught it and what the native replay said.  usage: tools/selfmut_C25.py [scratch worktree, default /tmp/rw/C25] [mutant ids...]
The scratch worktree must exist:  git -C /repo worktree add /tmp/rw/C25 HEAD && cp /repo/src/bluesky/_version.py /tmp/rw/C25/src/bluesky/"""
import glob
import json
import os
import subprocess
import sys

W = os.path.dirname(os.path.dirname(os.path.abspath(__file__)))
R = sys.argv[1] if len(sys.argv) > 1 and sys.argv[1].startswith("/") else "/tmp/rw/C25"
ONLY = [a for a in sys.argv[1:] if not a.startswith("/")]

IP_TAIL = """        c = cycler(motor, steps)
        cyclers.append(c)
    return functools.reduce(operator.add, cyclers)"""
OP_TAIL = """        c = cycler(motor, steps)
        cyclers.{}

    return snake_cyclers(cyclers, snaking)"""

# (id, what, file, [(old, new)...], --only filter, behaviour-changing?)
MUTANTS = [
    ("M1", "move_per_step forgets to update the cache", "plan_stubs.py",
     [('        yield Msg("set", motor, pos, group=grp)\n        pos_cache[motor] = pos', '        yield Msg("set", motor, pos, group=grp)')], "move_per_step", True),
    ("M1b", "move_per_step: skip condition inverted", "plan_stubs.py",
     [("        if pos == pos_cache[motor]:\n            # This step", "        if pos != pos_cache[motor]:\n            # This step")], "one_nd_step[any", True),
    ("M1c", "move_per_step stops at the first unchanged motor (continue -> break)", "plan_stubs.py",
     [("            # This step does not move this motor.\n            continue", "            # This step does not move this motor.\n            break")], "move_per_step[any", True),
    ("M2", "one_nd_step reads the detectors only", "plan_stubs.py",
     [("    yield from take_reading(list(detectors) + list(motors))", "    yield from take_reading(list(detectors))")], "one_nd_step", True),
    ("M3", "one_1d_step does not wait for the motor", "plan_stubs.py",
     [('        yield Msg("set", motor, step, group=grp)\n        yield Msg("wait", None, group=grp)', '        yield Msg("set", motor, step, group=grp)')], "one_1d_step", True),
    ("M3b", "one_1d_step without checkpoint", "plan_stubs.py",
     [('        yield Msg("checkpoint")\n        yield Msg("set", motor, step, group=grp)', '        yield Msg("set", motor, step, group=grp)')], "one_1d_step", True),
    ("M4", "inner_product: endpoint=False", "plan_patterns.py",
     [("        steps = np.linspace(start, stop, num=num, endpoint=True)\n" + IP_TAIL, "        steps = np.linspace(start, stop, num=num, endpoint=False)\n" + IP_TAIL)], "scan[2", True),
    ("M5", "outer_product: axis order reversed", "plan_patterns.py",
     [("        steps = np.linspace(start, stop, num=num, endpoint=True)\n" + OP_TAIL.format("append(c)"),
       "        steps = np.linspace(start, stop, num=num, endpoint=True)\n" + OP_TAIL.format("insert(0, c)"))], "outer_product[", True),
    ("M6", "grid_scan: snake_axes=True leaves the second axis unsnaked", "plans.py",
     [("_set_snaking(_, True) if n > 0 else _ for n, _ in enumerate(chunk_args)", "_set_snaking(_, True) if n > 1 else _ for n, _ in enumerate(chunk_args)")], "grid_scan[2 axes, pattern 1", True),
    ("M6b", "grid_scan: extents recorded as [stop, start]", "plans.py",
     [('"extents": tuple([start, stop] for motor, start, stop, num, snake in chunk_args),', '"extents": tuple([stop, start] for motor, start, stop, num, snake in chunk_args),')],
     "grid_scan[2 axes, pattern 2", True),
    ("M7", "scan_nd: a fresh position cache for every point", "plans.py",
     [("            yield from per_step(detectors, step, pos_cache)\n\n    return (yield from inner_scan_nd())",
       "            yield from per_step(detectors, step, defaultdict(lambda: None))\n\n    return (yield from inner_scan_nd())")], "scan_nd[1", True),
    ("M7b", "scan_nd: num_points off by one", "plans.py",
     [('        "num_points": len(cycler),\n        "num_intervals": len(cycler) - 1,\n        "plan_args": {\n            "detectors": list(map(repr, detectors)),\n            "cycler"',
       '        "num_points": len(cycler) + 1,\n        "num_intervals": len(cycler) - 1,\n        "plan_args": {\n            "detectors": list(map(repr, detectors)),\n            "cycler"')],
     "scan_nd[1", True),
    ("M7c", "scan_nd: stops after three points (differs only at the 4th iteration: cut-point closure must not hide it)", "plans.py",
     [("        for step in list(cycler):\n            yield from per_step(detectors, step, pos_cache)",
       "        count = 0\n        for step in list(cycler):\n            count += 1\n            if count > 3:\n                break\n            yield from per_step(detectors, step, pos_cache)")],
     "scan_nd[1", True),
    ("M7d", "scan_nd: cache default 0 instead of None", "plans.py",
     [("    pos_cache: dict = defaultdict(lambda: None)", "    pos_cache: dict = defaultdict(lambda: 0)")], "scan_nd[1", True),
    ("M8", "x2x_scan: second motor over the full range", "plans.py",
     [("motor2, start / 2, stop / 2, per_step=per_step", "motor2, start / 2, stop, per_step=per_step")], "x2x", True),
    ("M9", "list_scan: num_points one too many", "plans.py",
     [('        "num_points": length,\n        "num_intervals": num_intervals,', '        "num_points": length + 1,\n        "num_intervals": num_intervals,')], "list_scan[2", True),
    ("M10", "chunk_outer_product_args: slowest axis flagged as snaked", "plan_patterns.py",
     [("        args.insert(4, False)", "        args.insert(4, True)")], "chunk", True),
    ("M11", "log_scan: positions doubled", "plans.py",
     [("        for step in steps:\n            yield from per_step(detectors, motor, step)\n\n    return (yield from inner_log_scan())",
       "        for step in steps:\n            yield from per_step(detectors, motor, 2 * step)\n\n    return (yield from inner_log_scan())")], "log_scan", True),
    ("M11b", "log_scan: third position skipped", "plans.py",
     [("        for step in steps:\n            yield from per_step(detectors, motor, step)\n\n    return (yield from inner_log_scan())",
       "        done = 0\n        for step in steps:\n            done += 1\n            if done == 3:\n                continue\n            yield from per_step(detectors, motor, step)\n\n    return (yield from inner_log_scan())")],
     "log_scan", True),
    ("M12", "outer_list_product: snake_axes=True snakes nothing", "plan_patterns.py",
     [("            if not snaking:\n                snaking.append(False)\n            else:\n                snaking.append(True)",
       "            if not snaking:\n                snaking.append(False)\n            else:\n                snaking.append(False)")], "list_grid_scan[2", True),
    ("H", "harmless: locals renamed in move_per_step, statements reordered in one_nd_step / scan, a local introduced in inner_scan_nd, dead locals dropped in outer_product", None,
     [("plan_stubs.py", '    grp = _short_uid("set")\n    for motor, pos in step.items():\n        if pos == pos_cache[motor]:\n            # This step does not move this motor.\n            continue\n'
                        '        yield Msg("set", motor, pos, group=grp)\n        pos_cache[motor] = pos\n    yield Msg("wait", None, group=grp)',
       '    group_id = _short_uid("set")\n    for axis, target in step.items():\n        if target == pos_cache[axis]:\n            # This step does not move this motor.\n            continue\n'
       '        yield Msg("set", axis, target, group=group_id)\n        pos_cache[axis] = target\n    yield Msg("wait", None, group=group_id)'),
      ("plan_stubs.py", "    motors = step.keys()\n    yield from move_per_step(step, pos_cache)\n", "    yield from move_per_step(step, pos_cache)\n    motors = step.keys()\n"),
      ("plans.py", "    md_args = list(chain(*((repr(motor), start, stop) for motor, start, stop in partition(3, args))))\n    motor_names = tuple(motor.name for motor, start, stop in partition(3, args))\n    md = md or {}",
       "    motor_names = tuple(motor.name for motor, start, stop in partition(3, args))\n    md_args = list(chain(*((repr(motor), start, stop) for motor, start, stop in partition(3, args))))\n    md = md or {}"),
      ("plans.py", "        for step in list(cycler):\n            yield from per_step(detectors, step, pos_cache)",
       "        points = list(cycler)\n        for point in points:\n            yield from per_step(detectors, point, pos_cache)"),
      ("plan_patterns.py", "        shape.append(num)\n        extents.append([start, stop])\n        snaking.append(snake)", "        snaking.append(snake)")], None, False),
]


def run(mid, what, rel, edits, only, changing):
    edits = [(rel, o, n) for o, n in edits] if rel else edits
    touched = set()
    try:
        for f, old, new in edits:
            p = os.path.join(R, "src/bluesky", f)
            s = open(p).read()
            if s.count(old) != 1:
                return f"{mid}: pattern occurs {s.count(old)} times in {f} - not applied"
            open(p, "w").write(s.replace(old, new))
            touched.add(f)
        for f in glob.glob(os.path.join(W, "replays/C25/*.json")):
            os.unlink(f)
        cmd = ["./check", "C25"] + (["--only", only] if only else [])
        r = subprocess.run(cmd, cwd=W, env={**os.environ, "VERIF_REPO": R}, capture_output=True, text=True, timeout=1800)
        failed = [l[len("obligation failed: "):] for l in r.stdout.splitlines() if l.startswith("obligation failed: ")]
        verdicts = []
        for f in sorted(glob.glob(os.path.join(W, "replays/C25/*.json"))):
            a = json.load(open(f))
            verdicts.append(a.get("replay_verdict"))
        line = f"{mid:5s} exit={r.returncode}  {what}\n"
        for ob in failed:
            line += f"        caught by: {ob[:150]}\n"
        line += f"        native replays: {verdicts}\n"
        ok = (r.returncode == 1 and verdicts and all(v == "confirmed" for v in verdicts)) if changing else r.returncode == 0
        return line + f"        => {'as expected' if ok else 'UNEXPECTED'}"
    finally:
        for f in touched:
            subprocess.run(["git", "-C", R, "checkout", "--", "src/bluesky/" + f])
        if os.path.exists(os.path.join(W, "evidence/C25.json")):
            subprocess.run(["git", "-C", W, "checkout", "--", "evidence/C25.json"], capture_output=True)


for m in MUTANTS:
    if ONLY and m[0] not in ONLY:
        continue
    print(run(*m), flush=True)
